package main

// Black-box property predicates (the Q of DESIGN.md section 5).  The harness
// runs the implementation (and, where the property names it, the standard fmt
// package) and writes one line per obligation; the OCaml driver evaluates the
// obligation with the functions extracted from the Coq development (lex, strip,
// redact, del_env, escape_markers, norm, redactable, linesafe):
//
//   (qeq  <prop> <msg> <expr> <expr> <info>)   the two expressions denote the same bytes
//   (qpred <prop> <msg> <pred> <expr> <info>)  the predicate holds
//   (qtrue <prop> <msg> <0|1> <info>)          a fact the harness established itself
//
//   expr ::= x<hex> | (<fn> expr) | (cat expr*)      fn: strip redact delenv escm norm lfonly
//   pred ::= redactable linesafe nomarker noenv delenvlf
import (
	"bufio"
	"bytes"
	"errors"
	"fmt"
	"io"
	"math"
	"os"
	"os/exec"
	"reflect"
	"strconv"
	"strings"
	"sync"
	"unicode/utf8"

	"github.com/cockroachdb/redact"
	ifaces "github.com/cockroachdb/redact/interfaces"
)

type qw struct {
	w *bufio.Writer
}

func fn(name string, e string) string { return sx(name, e) }
func lit(s string) string             { return hxs(s) }
func cat(es ...string) string         { return sx("cat", strings.Join(es, " ")) }

// outputs of tens of thousands of bytes (huge paddings) are not worth the time of the
// list-based extracted functions
const maxExpr = 100000

func (q *qw) eq(prop, msg, e1, e2, info string) {
	if len(e1)+len(e2) > maxExpr {
		return
	}
	fmt.Fprintf(q.w, "(qeq %s %s %s %s %s)\n", prop, hxs(msg), e1, e2, hxs(info))
}
func (q *qw) pred(prop, msg, pred, e, info string) {
	if len(e) > maxExpr {
		return
	}
	fmt.Fprintf(q.w, "(qpred %s %s %s %s %s)\n", prop, hxs(msg), pred, e, hxs(info))
}
func (q *qw) truth(prop, msg string, ok bool, info string) {
	fmt.Fprintf(q.w, "(qtrue %s %s %s %s)\n", prop, hxs(msg), b01(ok), hxs(info))
}

// run f, report whether it panicked
func try(f func()) (panicked bool, pv interface{}) {
	defer func() {
		if r := recover(); r != nil {
			panicked = true
			pv = r
		}
	}()
	f()
	return
}

func prepCase(c *pcase) []interface{} {
	resetScripts()
	setRegistry(c.reg)
	if c.useHook {
		setHook(c.hook)
	} else {
		setHook(nil)
	}
	args := buildAll(c.args)
	collectVals(c.args, func(v *Val) { v.Build() })
	for _, v := range c.args {
		collectValActs(v, func(x *Val) { x.Build() }, func(*Act) {})
	}
	collectActs(c.acts, func(x *Val) { x.Build() }, func(*Act) {})
	collectActs(c.hook, func(x *Val) { x.Build() }, func(*Act) {})
	return args
}

func caseInfo(c *pcase) string {
	switch c.entry {
	case "sprint", "fprint":
		return sx(c.entry, dslAll(c.args))
	case "sprintfn", "builder":
		return sx(c.entry, actsDSL(c.acts))
	}
	return sx(c.entry, hxs(c.format), dslAll(c.args))
}

// ------------------------------------------------------------------------
// C04: with markers stripped, the output is what fmt prints

func fmtCompatFormat(f string) bool {
	// directives whose fmt semantics moved across Go releases
	if strings.Contains(f, "w") {
		// only reject real %w directives, cheaply: any 'w' after a '%'
		in := false
		for _, c := range f {
			if c == '%' {
				in = !in
				continue
			}
			if in {
				if c == 'w' {
					return false
				}
				if !strings.ContainsRune("+-# 0123456789.*[]", c) {
					in = false
				}
			}
		}
	}
	// '0' combined with '-'
	in := false
	var zero, minus bool
	for _, c := range f {
		if c == '%' {
			in = !in
			zero, minus = false, false
			continue
		}
		if in {
			switch {
			case c == '0' && !minus:
				zero = true
			case c == '0':
				return false
			case c == '-':
				if zero {
					return false
				}
				minus = true
			case strings.ContainsRune("+# ", c):
			default:
				in = false
			}
		}
	}
	return true
}

// the argument-index grammar: every combination of width, precision and operand index forms
// ('*' and '[n]*' included, valid and invalid indexes incl. [0]), as in fmt's own "%[3]*.[2]*[1]f"
func genIndexGrammar(q *qw, w *bufio.Writer, rng *prng) {
	{
		idxArgs := func() []*Val {
			return []*Val{{K: "i", GoT: "int", I: 6}, {K: "i", GoT: "int", I: 2}, {K: "i", GoT: "int", I: 41}, {K: "f", GoT: "float64", F: 7.25}}
		}
		for _, wd := range []string{"", "5", "*", "[1]*", "[3]*", "[9]*", "[2]"} {
			for _, pr := range []string{"", ".2", ".*", ".[2]*", ".[7]*", ".", ".[1]"} {
				for _, ix := range []string{"", "[1]", "[3]", "[4]", "[5]", "[0]", "[x]", "[2"} {
					for _, vb := range []string{"d", "f", "v", "s|%d"} {
						if !rng.coin(1, 2) {
							continue
						}
						c := &pcase{entry: "sprintf", format: "<%" + wd + pr + ix + vb + ">", args: idxArgs()}
						args := prepCase(c)
						var rout, fout string
						rp, _ := try(func() { rout = string(redact.Sprintf(c.format, args...)) })
						fp, _ := try(func() { fout = fmt.Sprintf(c.format, args...) })
						info := caseInfo(c)
						q.truth("C04", "a print call panics exactly when fmt does", rp == fp, info)
						q.truth("C11", "a Sprintf with argument indexes panicked", !rp, info)
						if !rp && !fp {
							q.eq("C04", "StripMarkers(redact output) = fmt output with markers replaced", fn("strip", lit(rout)), fn("escm", lit(fout)), info)
						}
						fmt.Fprintln(w, runPCase(c))
					}
				}
			}
		}
	}
}

func genQ04(w *bufio.Writer, rng *prng, n int, depth int) {
	q := &qw{w}
	setRegistry(false)
	setHook(nil)
	genNativeQ04(q, w, rng, n/4+1)
	genIndexGrammar(q, w, rng)
	for i := 0; i < n; i++ {
		g := &vgen{rng: rng, hostile: true, validUtf8: true, fmtCompat: true}
		c := &pcase{reg: rng.coin(1, 4)}
		var kind int = rng.intn(10)
		if kind < 3 {
			c.entry = "sprint"
			k := rng.intn(4)
			for j := 0; j < k; j++ {
				c.args = append(c.args, g.val(depth))
			}
		} else if kind == 3 {
			// floats under every float verb with dense flags ('#' keeps trailing zeros: the digits of
			// the strconv rendering are post-processed), widths and precisions
			c.entry = "sprintf"
			var sb strings.Builder
			k := 1 + rng.intn(2)
			for j := 0; j < k; j++ {
				sb.WriteString(rng.pick([]string{"", "a=", " ", "nº"}))
				sb.WriteByte('%')
				for _, ch := range "#+- 0" {
					if rng.coin(1, 3) && !(ch == '0' && strings.Contains(sb.String()[strings.LastIndex(sb.String(), "%"):], "-")) {
						sb.WriteRune(ch)
					}
				}
				if rng.coin(1, 3) {
					fmt.Fprintf(&sb, "%d", rng.intn(16))
				}
				if rng.coin(1, 3) {
					fmt.Fprintf(&sb, ".%d", rng.intn(9))
				}
				sb.WriteByte("vbgGxXfFeE"[rng.intn(10)])
				c.args = append(c.args, &Val{K: "f", GoT: rng.pick([]string{"float64", "float64", "float32", "MyFloat"}), F: g.float()})
			}
			c.format = sb.String()
			if !fmtCompatFormat(c.format) {
				i--
				continue
			}
		} else {
			c.entry = "sprintf"
			c.args, c.format = g.formatFor(depth, rng.intn(4))
			if !fmtCompatFormat(c.format) || !utf8.ValidString(c.format) {
				i--
				continue
			}
		}
		// a width/precision taken from a negative * operand sets '-': may combine with '0'
		if strings.Contains(c.format, "*") && strings.Contains(c.format, "0") {
			i--
			continue
		}
		args := prepCase(c)
		var rout, fout string
		var rp, fp bool
		if c.entry == "sprint" {
			rp, _ = try(func() { rout = string(redact.Sprint(args...)) })
			fp, _ = try(func() { fout = fmt.Sprint(args...) })
		} else {
			rp, _ = try(func() { rout = string(redact.Sprintf(c.format, args...)) })
			fp, _ = try(func() { fout = fmt.Sprintf(c.format, args...) })
		}
		info := caseInfo(c)
		q.truth("C04", "a print call panics exactly when fmt does", rp == fp, info)
		if !rp && !fp {
			q.eq("C04", "StripMarkers(redact output) = fmt output with markers replaced", fn("strip", lit(rout)), fn("escm", lit(fout)), info)
			// the same through the F variants
			var buf bytes.Buffer
			if c.entry == "sprint" {
				_, _ = redact.Fprint(&buf, args...)
			} else {
				_, _ = redact.Fprintf(&buf, c.format, args...)
			}
			q.eq("C04", "Fprint(f) writes what Sprint(f) returns", lit(buf.String()), lit(rout), info)
		}
		fmt.Fprintln(w, runPCase(c))
	}
}

// ------------------------------------------------------------------------
// C02: non-interference.  variant() re-instantiates the unsafe leaves.

var canaries = []string{"Qz7k", "Wm3p", "Hx9v"}

// same rune count, line feeds at the same rune positions, same emptiness
func varyString(s string, k int) string {
	if s == "" {
		return s
	}
	var sb strings.Builder
	can := canaries[k%len(canaries)]
	i := 0
	for len(s) > 0 {
		r, sz := utf8.DecodeRuneInString(s)
		if r == '\n' {
			sb.WriteByte('\n')
		} else {
			sb.WriteByte(can[i%len(can)])
			i++
		}
		s = s[sz:]
	}
	return sb.String()
}

func isDeclaredSafeLeaf(v *Val) bool {
	switch v.GoT {
	case "SvInt", "SvStr", "SafeInt", "SafeUint", "SafeFloat", "SafeString":
		return true
	case "RegInt", "RegStr", "uint16":
		return true // public when registered; kept equal in both instantiations either way
	}
	return false
}

func variant(v *Val, k int, public bool) *Val {
	if v == nil {
		return nil
	}
	if public {
		return v // shared by the instantiations (same addresses and IDs too)
	}
	c := *v
	c.built, c.isBuilt = nil, false
	c.Elems, c.Keys, c.Script = nil, nil, nil
	switch v.K {
	case "safe":
		c.Elems = []*Val{variant(v.Elems[0], k, true)}
		return &c
	case "rs", "rb":
		return &c
	case "usr":
		if v.UK == 9 || v.UK == 11 || v.UK == 12 {
			return v // SafeValue user kinds: declared safe as a whole; registered kind: kept equal either way
		}
		c.ID = newID()
		pub := public
		for _, a := range v.Script {
			// what SafeMessage() returns is declared safe
			c.Script = append(c.Script, variantAct(a, k, pub || (a.K == "ret" && userKinds[v.UK].ifaces[1])))
		}
		return &c
	case "st":
		if v.GoT == "RegSt" {
			return v // public when registered; kept equal in both instantiations either way
		}
	case "mp":
		for i := range v.Keys {
			c.Keys = append(c.Keys, variant(v.Keys[i], k, true)) // keys kept: relative order must not change
			c.Elems = append(c.Elems, variant(v.Elems[i], k, public))
		}
		return &c
	}
	for _, e := range v.Elems {
		c.Elems = append(c.Elems, variant(e, k, public))
	}
	if public || isDeclaredSafeLeaf(v) {
		return &c
	}
	switch v.K {
	case "s", "bs":
		c.S = varyString(v.S, k)
	case "i":
		if v.I != 0 && v.I != 10 {
			c.I = []int64{3, 77, -5, 12345}[k%4]
			if v.GoT == "int8" {
				c.I = []int64{3, 77, -5, 45}[k%4]
			}
		}
	case "u":
		if v.U != 0 && v.U != 10 {
			c.U = []uint64{3, 77, 5, 200}[k%4]
		}
	case "b":
		c.B = k%2 == 0
	case "f":
		if !g0isSpecial(v.F) {
			c.F = []float64{1.5, -2.25, 100, 0.1}[k%4]
		}
	}
	return &c
}

func valHasUser(v *Val) bool {
	if v == nil {
		return false
	}
	if v.K == "usr" {
		return true
	}
	for _, e := range v.Elems {
		if valHasUser(e) {
			return true
		}
	}
	for _, e := range v.Keys {
		if valHasUser(e) {
			return true
		}
	}
	return false
}

func g0isSpecial(f float64) bool { return f != f || f > 1e300 || f < -1e300 }

func variantAct(a *Act, k int, public bool) *Act {
	c := *a
	c.Args = nil
	star := a.K == "printf" && strings.Contains(a.S, "*")
	for _, x := range a.Args {
		// operands that may sit at a '*' position are public
		c.Args = append(c.Args, variant(x, k, public || (star && (x.K == "i" || x.K == "u"))))
	}
	if public {
		return &c
	}
	switch a.K {
	case "ret", "write", "wstr", "us", "ubs":
		c.S = varyString(a.S, k)
	case "panicrt":
		// the index that ends up in the runtime error's message is data of the unsafe operand
		c.N = []int64{4177, 905, 31}[k%3]
	case "ub":
		if a.N != '\n' {
			c.N = int64("abc"[k%3])
		}
	case "ur":
		if a.N != '\n' && a.N >= 0 && a.N < 0xd800 {
			c.N = int64("abc"[k%3])
		}
	}
	return &c
}

func homonymA(x string) (interface{}, reflect.Type) {
	type label string
	return label(x), reflect.TypeOf(label(""))
}

func homonymB(x string) interface{} {
	type label string
	return label(x)
}

func genQ02(w *bufio.Writer, rng *prng, n int, depth int) {
	q := &qw{w}
	// what a caller does with the slices handed out by the marker accessors is its own business
	for _, b := range [][]byte{redact.StartMarker(), redact.EndMarker(), redact.RedactedMarker(), redact.EscapeMarkers(nil)} {
		for i := range b {
			b[i] = 'x'
		}
		_ = append(b[:0], "]]"...)
	}
	// a map whose value type is registered as safe: its keys are not
	{
		setRegistry(true)
		for _, d := range []string{"%v", "%d", "%+v", "%6v"} {
			a := string(redact.Sprintf(d, map[string]RegInt{"hunter2": 3, "x": 3}))
			b := string(redact.Sprintf(d, map[string]RegInt{"swordfi": 3, "y": 3}))
			q.eq("C02", "Redact() of two instantiations of the same shape differ", fn("redact", lit(a)), fn("redact", lit(b)), fmt.Sprintf("map[string]RegInt under %q: %q vs %q", d, a, b))
			q.eq("C05", "keys of a map whose value type is registered are still enveloped", fn("delenv", lit(string(redact.Sprintf(d, map[string]RegInt{"k": 3})))), fn("delenv", lit(string(redact.Sprintf(d, map[Blank]RegInt{{"k"}: 3})))), d)
		}
		setRegistry(false)
	}
	// a registered type has a namesake (same package path and name, another type): only the
	// registered one is safe
	{
		redact.VerifResetSafeTypes()
		_, ta := homonymA("")
		redact.RegisterSafeType(ta)
		for _, d := range []string{"%v", "%s", "%q", "%x", "%d", "%+v"} {
			mk := func(x string) string {
				hb := homonymB(x)
				return string(redact.Sprintf(d+"|"+d+"|"+d, hb, []interface{}{hb}, map[interface{}]int{hb: 1}))
			}
			a, b := mk("hunter2"), mk("swordfi")
			q.eq("C02", "Redact() of two instantiations of the same shape differ", fn("redact", lit(a)), fn("redact", lit(b)), fmt.Sprintf("namesake of a registered type under %q: %q vs %q", d, a, b))
			ha, _ := homonymA("pub")
			q.eq("C05", "the registered type itself is safe", lit(string(redact.Sprintf(d, ha))), fn("safelit", lit(fmt.Sprintf(d, ha))), d)
		}
		setRegistry(false)
	}
	// complex numbers (no counterpart in the model): sign, magnitude and special values of both parts are unsafe
	{
		setRegistry(false)
		setHook(nil)
		cs := []complex128{complex(1.5, 2.25), complex(-7.5, -3.125), complex(3, -0.5), complex(-1, 100), complex(0.25, 8)}
		for _, d := range []string{"%v", "%f", "%e", "%g", "%.2f", "%8.2f", "%+v", "% .1e", "%x", "[%v]"} {
			var outs []string
			for _, c := range cs {
				outs = append(outs, string(redact.Sprintf(d, c)), string(redact.Sprintf(d, []interface{}{complex64(c), c})))
			}
			for k := 2; k < len(outs); k++ {
				q.eq("C02", "Redact() of two instantiations of the same shape differ", fn("redact", lit(outs[k])), fn("redact", lit(outs[k%2])), fmt.Sprintf("complex operands under %q: %q vs %q", d, outs[k], outs[k%2]))
			}
		}
	}
	for i := 0; i < n; i++ {
		g := &vgen{rng: rng, hostile: rng.coin(1, 2), noDump: true}
		c := &pcase{reg: rng.coin(1, 4)}
		if rng.coin(1, 4) {
			c.entry = "sprint"
			k := 1 + rng.intn(3)
			for j := 0; j < k; j++ {
				c.args = append(c.args, g.val(depth))
			}
		} else {
			c.entry = "sprintf"
			c.args, c.format = g.formatFor(depth, 1+rng.intn(3))
		}
		// star operands are public: they are the operands that sit before a '*'; keep every
		// top-level int operand equal when the format has a star.
		star := strings.Contains(c.format, "*")
		outs := make([]string, 0, 3)
		panicked := false
		var infos []string
		for k := 0; k < 3; k++ {
			vc := &pcase{entry: c.entry, format: c.format, reg: c.reg}
			for _, a := range c.args {
				if star && (a.K == "i" || a.K == "u") {
					vc.args = append(vc.args, variant(a, k, true))
				} else {
					vc.args = append(vc.args, variant(a, k, false))
				}
			}
			args := prepCase(vc)
			var out string
			p, _ := try(func() {
				if vc.entry == "sprint" {
					out = string(redact.Sprint(args...))
				} else {
					out = string(redact.Sprintf(vc.format, args...))
				}
			})
			if p {
				panicked = true
				break
			}
			outs = append(outs, out)
			infos = append(infos, caseInfo(vc))
			if k == 0 {
				fmt.Fprintln(w, runPCase(vc))
			}
		}
		if panicked {
			continue
		}
		for k := 1; k < 3; k++ {
			q.eq("C02", "Redact() of two instantiations of the same shape differ", fn("redact", lit(outs[0])), fn("redact", lit(outs[k])), infos[0]+" vs "+infos[k])
		}
	}
}

// ------------------------------------------------------------------------
// C05: deleting the envelopes leaves what fmt prints when unsafe leaves render as nothing

// Blank renders as the line feeds of what fmt prints for orig under the same directive.
type Blank struct{ orig interface{} }

func directiveOf(s fmt.State, verb rune) string {
	var sb strings.Builder
	sb.WriteByte('%')
	for _, c := range "+-# 0" {
		if s.Flag(int(c)) {
			sb.WriteRune(c)
		}
	}
	if w, ok := s.Width(); ok {
		fmt.Fprintf(&sb, "%d", w)
	}
	if p, ok := s.Precision(); ok {
		fmt.Fprintf(&sb, ".%d", p)
	}
	sb.WriteRune(verb)
	return sb.String()
}

func (b Blank) Format(s fmt.State, verb rune) {
	txt := fmt.Sprintf(directiveOf(s, verb), b.orig)
	for _, c := range []byte(txt) {
		if c == '\n' {
			_, _ = s.Write([]byte{'\n'})
		}
	}
}

func c05leaf(g *vgen) (*Val, bool) {
	r := g.rng
	switch r.intn(11) {
	case 10:
		// a value rendered by its String method whose type is a SafeValue / registered
		uk := 9
		if r.coin(1, 2) {
			uk = 12
		}
		return &Val{K: "usr", UK: uk, ID: newID(), Script: []*Act{{K: "ret", S: g.str()}}}, true
	case 0:
		return &Val{K: "i", GoT: r.pick([]string{"SvInt", "SafeInt", "RegInt"}), I: intVals[r.intn(len(intVals))]}, true
	case 1:
		return &Val{K: "s", GoT: r.pick([]string{"SvStr", "SafeString", "RegStr"}), S: g.str()}, true
	case 2:
		return &Val{K: "u", GoT: "SafeUint", U: uint64(r.intn(70000))}, true
	case 3:
		if r.coin(1, 2) {
			return &Val{K: "safe", Elems: []*Val{{K: "i", GoT: "int", I: intVals[r.intn(len(intVals))]}}}, true
		}
		return &Val{K: "safe", Elems: []*Val{{K: "s", GoT: "string", S: g.str()}}}, true
	case 4:
		return &Val{K: "b", GoT: "bool", B: r.coin(1, 2)}, false
	case 5, 6:
		return &Val{K: "i", GoT: r.pick([]string{"int", "int64", "MyInt"}), I: intVals[r.intn(len(intVals))]}, false
	case 7:
		if r.coin(1, 2) {
			return &Val{K: "f", GoT: "float64", F: floatVals[r.intn(len(floatVals))]}, false
		}
		return &Val{K: "f", GoT: "SafeFloat", F: floatVals[r.intn(len(floatVals))]}, true
	default:
		return &Val{K: "s", GoT: r.pick([]string{"string", "MyStr"}), S: g.str()}, false
	}
}

// returns the value, its fmt counterpart in which unsafe leaves are Blank, and its plain fmt counterpart
func c05val(g *vgen, depth int, reg bool, kinds *string) (*Val, func() interface{}) {
	v, f, _ := c05val2(g, depth, reg, kinds)
	return v, f
}

func c05val2(g *vgen, depth int, reg bool, kinds *string) (*Val, func() interface{}, func() interface{}) {
	r := g.rng
	if depth > 0 && r.coin(1, 2) {
		n := 1 + r.intn(3)
		var es []*Val
		var fs, ps []func() interface{}
		var k string
		for i := 0; i < n; i++ {
			e, f, pl := c05val2(g, depth-1, reg, &k)
			es = append(es, e)
			fs = append(fs, f)
			ps = append(ps, pl)
		}
		mkAll := func(fs []func() interface{}) []interface{} {
			out := make([]interface{}, len(fs))
			for i, f := range fs {
				out[i] = f()
			}
			return out
		}
		_ = mkAll
		switch r.intn(3) {
		case 0:
			*kinds = ""
			return &Val{K: "sl", GoT: "[]interface{}", Elems: es}, func() interface{} { return mkAll(fs) }, func() interface{} { return mkAll(ps) }
		case 1:
			for len(es) < 2 {
				e, f, pl := c05val2(g, depth-1, reg, &k)
				es = append(es, e)
				fs = append(fs, f)
				ps = append(ps, pl)
			}
			es, fs, ps = es[:2], fs[:2], ps[:2]
			*kinds = ""
			return &Val{K: "ar", GoT: "[2]interface{}", Elems: es}, func() interface{} {
					return [2]interface{}{fs[0](), fs[1]()}
				}, func() interface{} {
					return [2]interface{}{ps[0](), ps[1]()}
				}
		default:
			*kinds = ""
			// exported interface field A; the unexported field b holds a declared-safe constant
			return &Val{K: "st", GoT: "St2", Elems: []*Val{es[0], {K: "nil"}}}, func() interface{} {
					return St2{A: fs[0]()}
				}, func() interface{} {
					return St2{A: ps[0]()}
				}
		}
	}
	v, safe := c05leaf(g)
	*kinds = verbsFor(v)
	if v.K == "safe" {
		*kinds = verbsFor(v.Elems[0])
	}
	if (v.GoT == "RegInt" || v.GoT == "RegStr" || (v.K == "usr" && v.UK == 12)) && !reg {
		safe = false
	}
	plain := func() interface{} {
		x := v.Build()
		if v.K == "safe" {
			x = v.Elems[0].Build()
		}
		return x
	}
	return v, func() interface{} {
		if safe {
			return plain()
		}
		return Blank{plain()}
	}, plain
}

// structs whose exported fields are SafeValues rendered by a method, followed by unexported
// string fields (not interfaceable: no method, no SafeValue test; unsafe whatever precedes them).
// The fmt counterpart keeps the line feeds of the unexported strings only.
func lfOnly(s string) string {
	var sb strings.Builder
	for i := 0; i < len(s); i++ {
		if s[i] == '\n' {
			sb.WriteByte('\n')
		}
	}
	return sb.String()
}

func c05struct(g *vgen) (*Val, func() interface{}) {
	r := g.rng
	mkU := func(uk int) *Val {
		return &Val{K: "usr", UK: uk, ID: newID(), Script: []*Act{{K: "ret", S: r.pick([]string{"INFO", "lvl‹", "a b", ""})}}}
	}
	s1, s2 := g.str(), g.str()
	if r.coin(1, 2) {
		l := mkU(9) // Stringer + SafeValue
		v := &Val{K: "st", GoT: "St4", Elems: []*Val{l, {K: "s", GoT: "string", S: s1}}}
		return v, func() interface{} { return St4{L: l.Build().(UStrSafeValue), secret: lfOnly(s1)} }
	}
	l := mkU(9)
	sv := &Val{K: "s", GoT: "SvStr", S: g.str()}
	v := &Val{K: "st", GoT: "St5", Elems: []*Val{{K: "s", GoT: "string", S: s1}, l, sv, {K: "s", GoT: "string", S: s2}}}
	return v, func() interface{} {
		return St5{first: lfOnly(s1), L: l.Build().(UStrSafeValue), S: SvStr(sv.S), tail: lfOnly(s2)}
	}
}

// fmt counterpart of an unregistered RegSt: both leaves blank
type BlankSt struct{ N, V Blank }

// a map whose keys are of a declared-safe named string type, or a struct of a type registered as a
// whole (by value, or behind a top-level pointer: the registry is consulted for the element type)
func c05special(g *vgen, depth int, reg bool) (*Val, func() interface{}) {
	r := g.rng
	if r.coin(1, 2) {
		kt := "SvStr"
		if reg && r.coin(1, 2) {
			kt = "RegStr"
		}
		n := 1 + r.intn(3)
		m := &Val{K: "mp", GoT: "map[" + kt + "]interface{}"}
		var fs []func() interface{}
		for i := 0; i < n; i++ {
			var k string
			e, f, _ := c05val2(g, depth, reg, &k)
			m.Keys = append(m.Keys, &Val{K: "s", GoT: kt, S: g.str() + strconv.Itoa(i)})
			m.Elems = append(m.Elems, e)
			fs = append(fs, f)
		}
		return m, func() interface{} {
			if kt == "SvStr" {
				out := map[SvStr]interface{}{}
				for i, k := range m.Keys {
					out[SvStr(k.S)] = fs[i]()
				}
				return out
			}
			out := map[RegStr]interface{}{}
			for i, k := range m.Keys {
				out[RegStr(k.S)] = fs[i]()
			}
			return out
		}
	}
	sN, iV := g.str(), intVals[r.intn(len(intVals))]
	st := &Val{K: "st", GoT: "RegSt", Elems: []*Val{{K: "s", GoT: "string", S: sN}, {K: "i", GoT: "int", I: iV}}}
	ptr := r.coin(2, 3)
	var v *Val = st
	if ptr {
		v = &Val{K: "ptr", GoT: "*RegSt", Elems: []*Val{st}}
	}
	return v, func() interface{} {
		if reg {
			if ptr {
				return &RegSt{N: sN, V: int(iV)}
			}
			return RegSt{N: sN, V: int(iV)}
		}
		if ptr {
			return &BlankSt{Blank{sN}, Blank{int(iV)}}
		}
		return BlankSt{Blank{sN}, Blank{int(iV)}}
	}
}

type rvHolder struct {
	id    RegInt
	name  RegStr
	owner string
	n     int
	note  redact.RedactableString
	nb    redact.RedactableBytes
	st    RegSt
	Exp   RegInt
}

// reflect.Value operands, also ones that cannot be converted back to interface{} (taken from
// unexported fields): classified by their static type - registered types, redactables - exactly
// like the value itself passed directly
func q05reflectValues(q *qw, rng *prng) {
	h := rvHolder{id: 4711, name: "n‹m", owner: "alice\n", n: -3, note: "seen ‹bob›", nb: redact.RedactableBytes("x ‹y›"), st: RegSt{"in", 7}, Exp: 12}
	direct := []interface{}{h.id, h.name, h.owner, h.n, h.note, h.nb, h.st, h.Exp}
	for _, reg := range []bool{true, false} {
		setRegistry(reg)
		rv := reflect.ValueOf(h)
		for i := 0; i < rv.NumField(); i++ {
			for _, d := range []string{"%v", "%d", "%s", "%06d", "%8v|", "%-8s|", "%x", "%+v", "%q", "%.2s", "[% x]"} {
				if !rng.coin(2, 3) {
					continue
				}
				var got, want string
				p1, _ := try(func() { got = string(redact.Sprintf(d, rv.Field(i))) })
				p2, _ := try(func() { want = string(redact.Sprintf(d, direct[i])) })
				info := fmt.Sprintf("directive %q field %s (%s) registry=%v", d, rv.Type().Field(i).Name, rv.Type().Field(i).Type, reg)
				q.truth("C05", "reflect.Value operand: panics like the direct operand", p1 == p2, info)
				if !p1 && !p2 {
					q.eq("C05", "a reflect.Value operand is classified like the value it holds", lit(got), lit(want), info)
				}
			}
		}
	}
	setRegistry(false)
}

type SvByte uint8

func (SvByte) SafeValue() {}

type svByteRec struct {
	Roles []SvByte
	One   SvByte
	Arr   [2]SvByte
}

// slices and arrays whose element type is declared safe and of kind uint8: printed element by
// element (not as a byte string) under the integer verbs, every element safe
func q05safeBytes(q *qw) {
	setRegistry(false)
	for _, d := range []string{"%v", "%+v", "%d", "%3d", "%#v", "%o"} {
		for _, x := range []interface{}{[]SvByte{5, 6}, [2]SvByte{7, 8}, svByteRec{[]SvByte{1, 2}, 3, [2]SvByte{4, 5}}, &svByteRec{[]SvByte{9}, 3, [2]SvByte{4, 5}},
			[]ifaces.SafeByte{65, 66}} {
			var got string
			p, _ := try(func() { got = string(redact.Sprintf(d, x)) })
			info := fmt.Sprintf("directive %q operand %T %v", d, x, x)
			q.truth("C11", "print call panicked", !p, info)
			if p {
				continue
			}
			want := fmt.Sprintf(d, x)
			q.eq("C05", "declared-safe byte-sized elements are not enveloped", lit(got), lit(want), info)
		}
	}
}

func genQ05(w *bufio.Writer, rng *prng, n int, depth int) {
	q := &qw{w}
	q05reflectValues(q, rng)
	q05safeBytes(q)
	for i := 0; i < n; i++ {
		g := &vgen{rng: rng, hostile: true, validUtf8: true}
		c := &pcase{reg: rng.coin(1, 2), entry: "sprintf"}
		var fargs []func() interface{}
		var sb strings.Builder
		k := 1 + rng.intn(3)
		for j := 0; j < k; j++ {
			lits := []string{"", "a", " ", "x=", "\n", ":", "é", "%%", "‹", "›"}
			sb.WriteString(rng.pick(lits))
			var kinds string
			if rng.coin(1, 8) {
				v, f := c05special(g, depth-1, c.reg)
				c.args = append(c.args, v)
				fargs = append(fargs, f)
				sb.WriteString(rng.pick([]string{"%v", "%+v", "%v", "%6v"}))
				continue
			}
			if rng.coin(1, 8) {
				// struct with unexported unsafe strings after SafeValue fields: plain directives only
				v, f := c05struct(g)
				switch rng.intn(3) {
				case 0:
					v = &Val{K: "sl", GoT: "[]interface{}", Elems: []*Val{v}}
					f0 := f
					f = func() interface{} { return []interface{}{f0()} }
				case 1:
					v = &Val{K: "ar", GoT: "[2]interface{}", Elems: []*Val{v, {K: "i", GoT: "SvInt", I: 7}}}
					f0 := f
					f = func() interface{} { return [2]interface{}{f0(), SvInt(7)} }
				}
				c.args = append(c.args, v)
				fargs = append(fargs, f)
				sb.WriteString(rng.pick([]string{"%v", "%+v", "%s"}))
				continue
			}
			v, f, plain := c05val2(g, depth, c.reg, &kinds)
			if v.K != "safe" && rng.coin(1, 5) {
				// an enclosing Safe()/Unsafe() decides for everything inside, whatever the leaves declare
				if rng.coin(1, 2) {
					v = &Val{K: "safe", Elems: []*Val{v}}
					f = plain
				} else {
					v = &Val{K: "unsafe", Elems: []*Val{v}}
					f = func() interface{} { return Blank{plain()} }
				}
			}
			c.args = append(c.args, v)
			fargs = append(fargs, f)
			sb.WriteByte('%')
			if rng.coin(1, 3) {
				for _, ch := range "+-# " {
					if ch == '#' && valHasUser(v) {
						// %#v renders a value with a String method as a struct in Go syntax: type and
						// field names are structure, not part of a leaf's extent
						continue
					}
					if rng.coin(1, 4) {
						sb.WriteRune(ch)
					}
				}
			}
			if rng.coin(1, 3) {
				fmt.Fprintf(&sb, "%d", 1+rng.intn(9))
			}
			if rng.coin(1, 5) {
				fmt.Fprintf(&sb, ".%d", rng.intn(5))
			}
			if kinds == "" {
				kinds = "v"
			}
			sb.WriteByte(kinds[rng.intn(len(kinds))])
		}
		sb.WriteString(rng.pick([]string{"", "!", "\n"}))
		c.format = sb.String()
		args := prepCase(c)
		var rout, fout string
		rp, _ := try(func() { rout = string(redact.Sprintf(c.format, args...)) })
		fa := make([]interface{}, len(fargs))
		for j, f := range fargs {
			fa[j] = f()
		}
		fp, _ := try(func() { fout = fmt.Sprintf(c.format, fa...) })
		info := caseInfo(c) + fmt.Sprintf(" reg=%v", c.reg)
		if rp || fp {
			q.truth("C05", "no panic", false, info)
			continue
		}
		q.eq("C05", "output with envelopes deleted = fmt output with the unsafe operands' extents removed", fn("delenv", lit(rout)), fn("escm", lit(fout)), info)
		fmt.Fprintln(w, runPCase(c))
	}
}

// ------------------------------------------------------------------------
// C06: Unsafe(x) / Safe(x)

func hasOwnClass(v *Val) bool {
	found := false
	var walk func(v *Val)
	walk = func(v *Val) {
		if v == nil {
			return
		}
		switch v.K {
		case "safe", "unsafe", "rs", "rb", "usr":
			found = true
		}
		if isDeclaredSafeLeaf(v) {
			found = true
		}
		for _, e := range v.Elems {
			walk(e)
		}
		for _, e := range v.Keys {
			walk(e)
		}
	}
	walk(v)
	return found
}

func fmtCompatVal(v *Val) bool {
	ok := true
	var walk func(v *Val)
	walk = func(v *Val) {
		if v == nil {
			return
		}
		switch v.K {
		case "safe", "unsafe", "rs", "rb":
			ok = false
		case "usr":
			k := userKinds[v.UK]
			if k.ifaces[0] || k.ifaces[1] || k.ifaces[3] {
				ok = false // SafeFormatter, SafeMessager; Formatter scripts behave differently on the std State
			}
			for _, a := range v.Script {
				if !utf8.ValidString(a.S) {
					ok = false
				}
				for _, x := range a.Args {
					walk(x)
				}
			}
		case "s", "bs":
			if !utf8.ValidString(v.S) {
				ok = false
			}
		}
		for _, e := range v.Elems {
			walk(e)
		}
		for _, e := range v.Keys {
			walk(e)
		}
	}
	walk(v)
	return ok
}

func genQ06(w *bufio.Writer, rng *prng, n int, depth int) {
	q := &qw{w}
	for i := 0; i < n; i++ {
		g := &vgen{rng: rng, hostile: true}
		x := g.val(depth)
		c := &pcase{reg: rng.coin(1, 3), entry: "sprintf"}
		if rng.coin(1, 5) {
			c.useHook = true
			c.hook = g.script(0)
		}
		var star []*Val
		d := g.directive(x, &star)
		if len(star) > 0 || strings.ContainsAny(d[len(d)-1:], "Tpw") || (strings.Contains(d, "0") && strings.Contains(d, "-")) {
			d = "%v"
		}
		outer := rng.pick([]string{"unsafe", "unsafe", "safe"})
		wrapped := &Val{K: outer, Elems: []*Val{x}}
		depthW := 1
		for depthW < 3 && rng.coin(1, 3) {
			wrapped = &Val{K: outer, Elems: []*Val{{K: rng.pick([]string{"safe", "unsafe"}), Elems: wrapped.Elems}}}
			depthW++
		}
		c.format = rng.pick([]string{"", "a ", "‹"}) + d + rng.pick([]string{"", " b", "\n"})
		c.args = []*Val{wrapped}
		args := prepCase(c)
		rp, _ := try(func() { _ = redact.Sprintf(c.format, args...) })
		info := caseInfo(c)
		if !rp {
			// isolate the operand's rendering: print with the bare directive
			var only string
			p2, _ := try(func() { prepCase(c); only = string(redact.Sprintf(d, buildAll(c.args)...)) })
			if !p2 {
				if outer == "unsafe" {
					q.pred("C06", "Unsafe(x): text outside envelopes other than line feeds", "delenvlf", lit(only), info)
				} else if !hasOwnClass(x) {
					q.pred("C06", "Safe(x): envelope present although x has no classification of its own", "noenv", lit(only), info)
				}
				if fmtCompatVal(x) && utf8.ValidString(d) && (!c.useHook || outer == "unsafe") {
					var fout string
					fp, _ := try(func() { prepCase(c); fout = fmt.Sprintf(d, x.Build()) })
					if !fp {
						q.eq("C06", "characters of Safe/Unsafe(x) are those fmt prints for x", fn("strip", lit(only)), fn("escm", lit(fout)), info)
					}
				}
			}
		}
		fmt.Fprintln(w, runPCase(c))
		// the same x wrapped again inside a container of the operand - an exported interface-typed
		// struct field, a slice element: the wrapper reached by reflection prints x as fmt does
		// (through x's own formatting methods)
		if fmtCompatVal(x) && utf8.ValidString(d) && (!c.useHook || outer == "unsafe") && i%2 == 0 {
			inner := rng.pick([]string{"safe", "unsafe"})
			// the reference is fmt on the same holder, wrapper included: fmt prints a wrapper through
			// its Format method, which re-prints the wrapped value under the active directive
			var holder *Val
			if rng.coin(1, 2) {
				holder = &Val{K: "st", GoT: "St2", Elems: []*Val{{K: inner, Elems: []*Val{x}}, {K: "nil"}}}
			} else {
				holder = &Val{K: "sl", GoT: "[]interface{}", Elems: []*Val{{K: "i", GoT: "int", I: 1}, {K: inner, Elems: []*Val{x}}}}
			}
			ref := func() interface{} { return holder.Build() }
			c2 := &pcase{reg: c.reg, entry: "sprintf", useHook: c.useHook, hook: c.hook, format: d, args: []*Val{{K: outer, Elems: []*Val{holder}}}}
			var only, fout string
			p2, _ := try(func() { only = string(redact.Sprintf(d, prepCase(c2)...)) })
			fp, _ := try(func() { prepCase(c2); fout = fmt.Sprintf(d, ref()) })
			if !p2 && !fp {
				q.eq("C06", "characters of Safe/Unsafe(x) are those fmt prints for x (x holding a wrapped value in a struct field or slice element)", fn("strip", lit(only)), fn("escm", lit(fout)), caseInfo(c2))
			}
			fmt.Fprintln(w, runPCase(c2))
		}
	}
}

// ------------------------------------------------------------------------
// C08: redactables compose

func libRedactable(g *vgen, depth int) string {
	r := g.rng
	s := g.redactable()
	for d := 0; d < depth; d++ {
		switch r.intn(4) {
		case 0:
			s = string(redact.Sprint(redact.RedactableString(s), g.str()))
		case 1:
			s = string(redact.Sprintf("%v|%s", redact.RedactableString(s), redact.Safe(g.str())))
		case 2:
			s = string(redact.Join(redact.RedactableString(g.redactable()), []redact.RedactableString{redact.RedactableString(s), redact.RedactableString(g.redactable())}))
		default:
			var sb redact.StringBuilder
			sb.Print(redact.RedactableString(s))
			sb.UnsafeString(g.str())
			s = string(sb.RedactableString())
		}
	}
	return s
}

type rsHolder struct {
	R redact.RedactableString
	r redact.RedactableString
}

func genQ08(w *bufio.Writer, rng *prng, n int, depth int) {
	q := &qw{w}
	setRegistry(false)
	setHook(nil)
	// redactables that print themselves through a method, under %#v too; snapshots of one builder's
	// bytes (sharing its array) as operands
	{
		var sb redact.StringBuilder
		sb.Printf("u=%s ", "al‹ice")
		sb.SafeString("mid\n")
		r := sb.RedactableString()
		for _, d := range []string{"%v", "%#v", "%#10v", "%s", "%+v", "%q", "%x", "%X", "% x", "%d", "%.3s"} {
			q.eq("C08", "Sprintf("+d+", StringBuilder) = its contents", lit(string(redact.Sprintf(d, sb))), lit(string(r)), "builder "+string(r))
			q.eq("C08", "Sprintf("+d+", &StringBuilder) = its contents", lit(string(redact.Sprintf(d, &sb))), lit(string(r)), "builder "+string(r))
		}
		q.eq("C08", "Sprintf(%#v, []interface{}{Safe(r)})", lit(string(redact.Sprintf("%#v", []interface{}{redact.Safe(r)}))), lit("[]interface {}{"+string(r)+"}"), "redactable "+string(r))
		var sb2 redact.StringBuilder
		sb2.Grow(200)
		sb2.UnsafeString("alpha")
		first := sb2.RedactableBytes()
		sb2.SafeString(" and ")
		sb2.UnsafeString("beta\ngamma")
		both := sb2.RedactableBytes()
		f0, b0 := string(first), string(both)
		got := string(redact.Sprintf("%s|%s", first, both))
		q.eq("C08", "Sprintf of two snapshots of one builder = concatenation with the literal", lit(got), lit(f0+"|"+b0), "snapshots")
		var sb3 redact.StringBuilder
		redact.JoinTo(&sb3, "+", []redact.RedactableBytes{first, both, first})
		q.eq("C08", "JoinTo of snapshots of one builder = concatenation with the delimiter", lit(string(sb3.RedactableString())), lit(f0+"+"+b0+"+"+f0), "snapshots")
		q.truth("C08", "operands are not consumed or overwritten by printing them", string(first) == f0 && string(both) == b0 && string(sb2.RedactableBytes()) == b0, "snapshots")
		sb2.SafeString("tail")
		q.truth("C08", "a result does not alias its operands' storage", got == f0+"|"+b0, "snapshots")
	}
	// deep composition: outputs of hundreds of KiB built by re-printing and joining (the buffer grows
	// past the sizes at which storage policies change); compared here, the strings are too long to ship
	{
		r := redact.Sprintf("user %s from %v\n", "alice‹", 10)
		for d := 0; d < 15; d++ {
			want := string(r) + " | " + string(r)
			var got, gotJ redact.RedactableString
			p1, _ := try(func() { got = redact.Sprintf("%s | %s", r, r) })
			p2, _ := try(func() { gotJ = redact.Join(" | ", []redact.RedactableString{r, r}) })
			info := fmt.Sprintf("doubling depth %d, %d bytes", d, len(want))
			q.truth("C08", "Sprintf/Join of large redactables panicked", !p1 && !p2, info)
			if p1 || p2 {
				break
			}
			q.truth("C08", "Sprintf of two large redactables = concatenation with the literal", string(got) == want, info)
			q.truth("C08", "Join of two large redactables = concatenation with the delimiter", string(gotJ) == want, info)
			q.truth("C08", "Sprint(r) = r for a large redactable", redact.Sprint(got) == got && redact.Sprintf("%v", []redact.RedactableString{got}) == "["+got+"]", info)
			q.truth("C08", "Redact distributes over a large composition", got.Redact() == r.Redact()+" | "+r.Redact(), info)
			r = got
		}
	}
	for i := 0; i < n; i++ {
		g := &vgen{rng: rng, hostile: true}
		r1, r2 := libRedactable(g, rng.intn(depth+1)), libRedactable(g, rng.intn(depth+1))
		R1, R2 := redact.RedactableString(r1), redact.RedactableString(r2)
		info := sx("redactables", hxs(r1), hxs(r2))
		// any directive other than %T %p
		var star []*Val
		d := g.directive(&Val{K: "s"}, &star)
		if len(star) == 0 && !strings.ContainsAny(d[len(d)-1:], "Tp") {
			q.eq("C08", "Sprintf("+d+", r) = r", lit(string(redact.Sprintf(d, R1))), lit(r1), info)
			q.eq("C08", "Sprintf("+d+", r.ToBytes()) = r", lit(string(redact.Sprintf(d, R1.ToBytes()))), lit(r1), info)
		}
		if len(star) == 0 && !strings.ContainsAny(d[len(d)-1:], "Tpw") && !strings.Contains(d, "#") {
			// nested: width, precision, flags and verb of the directive do not touch a redactable element
			q.eq("C08", "Sprintf("+d+", []RedactableString{r1,r2})", lit(string(redact.Sprintf(d, []redact.RedactableString{R1, R2}))), lit("["+r1+" "+r2+"]"), info)
			q.eq("C08", "Sprintf("+d+", []interface{}{r1.ToBytes(),r2})", lit(string(redact.Sprintf(d, []interface{}{R1.ToBytes(), R2}))), lit("["+r1+" "+r2+"]"), info)
			q.eq("C08", "Sprintf("+d+", [1]RedactableBytes{r1})", lit(string(redact.Sprintf(d, [1]redact.RedactableBytes{R1.ToBytes()}))), lit("["+r1+"]"), info)
			if !strings.Contains(d, "+") {
				q.eq("C08", "Sprintf("+d+", struct{A: r1, b: r2})", lit(string(redact.Sprintf(d, St2{A: R1, b: R2.ToBytes()}))), lit("{"+r1+" "+r2+"}"), info)
				q.eq("C08", "Sprintf("+d+", &struct{A: r1})", lit(string(redact.Sprintf(d, &rsHolder{R1, R2}))), lit("&{"+r1+" "+r2+"}"), info)
			}
			q.eq("C08", "Sprintf("+d+", map[RedactableString]RedactableString)", lit(string(redact.Sprintf(d, map[redact.RedactableString]redact.RedactableString{R1: R2}))), lit("map["+r1+":"+r2+"]"), info)
		}
		q.eq("C08", "Sprint(r) = r", lit(string(redact.Sprint(R1))), lit(r1), info)
		a := []interface{}{g.str(), redact.Safe(g.str()), 7}
		s1 := redact.Sprint(a...)
		q.eq("C08", "Sprint(Sprint(a...)) = Sprint(a...)", lit(string(redact.Sprint(s1))), lit(string(s1)), info)
		// nested in containers: the container punctuation around the unchanged redactable
		q.eq("C08", "[]interface{}{r1,r2}", lit(string(redact.Sprint([]interface{}{R1, R2}))), lit("["+r1+" "+r2+"]"), info)
		q.eq("C08", "struct fields (exported and not)", lit(string(redact.Sprintf("%v", St2{A: R1, b: R2.ToBytes()}))), lit("{"+r1+" "+r2+"}"), info)
		q.eq("C08", "map value", lit(string(redact.Sprintf("%v", map[int]interface{}{1: R1}))), lit("map[‹1›:"+r1+"]"), info)
		q.eq("C08", "Safe(r): a wrapper holding a redactable", lit(string(redact.Sprint(redact.Safe(R1)))), lit(r1), info)
		q.eq("C08", "Safe([]interface{}{r1,r2})", lit(string(redact.Sprint(redact.Safe([]interface{}{R1, R2.ToBytes()})))), lit("["+r1+" "+r2+"]"), info)
		q.eq("C08", "Safe(struct) with redactable fields", lit(string(redact.Sprintf("%v", redact.Safe(St2{A: R1, b: R2})))), lit("{"+r1+" "+r2+"}"), info)
		q.eq("C08", "redactable printed by a SafeFormatter under Safe()", lit(string(redact.Sprint(redact.Safe(sfFunc(func(p redact.SafePrinter) { p.Printf("%s", R1) }))))), lit(r1), info)
		q.eq("C08", "pointer to struct", lit(string(redact.Sprintf("%+v", &St2{A: R1}))), lit("&{A:"+r1+" b:<nil>}"), info)
		// Sprintf concatenates
		gl := &vgen{rng: rng, hostile: true, validUtf8: true}
		lits := []string{gl.literal(), gl.literal(), gl.literal()}
		for j := range lits {
			lits[j] = strings.ReplaceAll(lits[j], "%", "")
		}
		f := lits[0] + "%s" + lits[1] + "%v" + lits[2]
		want := cat(fn("safelit", lit(lits[0])), lit(r1), fn("safelit", lit(lits[1])), lit(r2), fn("safelit", lit(lits[2])))
		got := string(redact.Sprintf(f, R1, R2))
		q.eq("C08", "Sprintf of redactables = concatenation with the literals", lit(got), want, info+" "+hxs(f))
		// Join
		delim := redact.RedactableString(libRedactable(g, rng.intn(2)))
		rs := []redact.RedactableString{R1, R2, redact.RedactableString(g.redactable())}
		j := redact.Join(delim, rs)
		q.eq("C08", "Join = concatenation with the delimiter", lit(string(j)), lit(string(rs[0])+string(delim)+string(rs[1])+string(delim)+string(rs[2])), info)
		q.eq("C08", "Redact distributes over Join", fn("redact", lit(string(j))),
			cat(fn("redact", lit(string(rs[0]))), fn("redact", lit(string(delim))), fn("redact", lit(string(rs[1]))), fn("redact", lit(string(delim))), fn("redact", lit(string(rs[2])))), info)
		q.eq("C08", "StripMarkers distributes over Join", fn("strip", lit(string(j))),
			cat(fn("strip", lit(string(rs[0]))), fn("strip", lit(string(delim))), fn("strip", lit(string(rs[1]))), fn("strip", lit(string(delim))), fn("strip", lit(string(rs[2])))), info)
		var sb redact.StringBuilder
		redact.JoinTo(&sb, delim, rs)
		q.eq("C08", "JoinTo = Join", lit(string(sb.RedactableString())), lit(string(j)), info)
		// any number of elements (none included), empty delimiters, elements of every redactable type
		{
			k := rng.intn(5)
			d2 := delim
			if rng.coin(1, 3) {
				d2 = ""
			}
			var es []redact.RedactableString
			var parts []string
			for x := 0; x < k; x++ {
				e := redact.RedactableString(g.redactable())
				if x > 0 {
					parts = append(parts, string(d2))
				}
				es = append(es, e)
				parts = append(parts, string(e))
			}
			want := strings.Join(parts, "")
			info2 := fmt.Sprintf("%s join of %d elements %q delim %q", info, k, es, d2)
			var jn string
			pj, _ := try(func() { jn = string(redact.Join(d2, es)) })
			q.truth("C08", "Join panicked", !pj, info2)
			if !pj {
				q.eq("C08", "Join of any number of elements = concatenation with the delimiter", lit(jn), lit(want), info2)
				if len(jn) < 4000 {
					el := make([]string, len(es))
					for x, e := range es {
						el[x] = hxs(string(e))
					}
					fmt.Fprintf(q.w, "(kjoin %s (%s) %s %s)\n", hxs(string(d2)), strings.Join(el, " "), hxs(jn), hxs(info2))
				}
			}
			var bs []redact.RedactableBytes
			var mixed []interface{}
			for x, e := range es {
				bs = append(bs, redact.RedactableBytes(e))
				switch (x + k) % 3 {
				case 0:
					mixed = append(mixed, e)
				case 1:
					mixed = append(mixed, redact.RedactableBytes(e))
				default:
					var inner redact.StringBuilder
					inner.Print(e)
					mixed = append(mixed, inner)
				}
			}
			for name, vals := range map[string]interface{}{"[]RedactableBytes": bs, "[]interface{}": mixed, "[]RedactableString(nil)": []redact.RedactableString(nil)} {
				if name == "[]RedactableString(nil)" && k > 0 {
					continue
				}
				var sb2 redact.StringBuilder
				sb2.SafeString("<")
				pj, _ := try(func() { redact.JoinTo(&sb2, d2, vals) })
				q.truth("C08", "JoinTo panicked", !pj, info2+" "+name)
				if !pj {
					q.eq("C08", "JoinTo of "+name+" = concatenation with the delimiter", lit(string(sb2.RedactableString())), lit("<"+want), info2)
				}
			}
		}
		q.pred("C08", "composition stays well-formed", "redactable", lit(string(j)), info)
		q.pred("C08", "composition stays line-safe", "linesafe", lit(string(j)), info)
		// model correspondence on the same operands
		c := &pcase{entry: "sprintf", format: f, args: []*Val{{K: "rs", S: r1}, {K: "rb", S: r2}}}
		fmt.Fprintln(w, runPCase(c))
	}
}

// ------------------------------------------------------------------------
// C09 / C13 / C16: SafeWriter call sequences through the three implementations

func payloadOf(a *Act) (safe bool, text string, isPrint bool) {
	switch a.K {
	case "ss", "sbs":
		return true, a.S, false
	case "si":
		return true, fmt.Sprint(a.N), false
	case "su":
		return true, fmt.Sprint(a.U), false
	case "sf":
		return true, fmt.Sprint(a.F), false
	case "sr":
		return true, string(rune(a.N)), false
	case "sb":
		return true, string([]byte{byte(a.N)}), false
	case "us", "ubs", "write", "wstr":
		return false, a.S, false
	case "ur":
		return false, string(rune(a.N)), false
	case "ub":
		if a.N >= 0x80 {
			return false, "?", false
		}
		return false, string([]byte{byte(a.N)}), false
	}
	return false, "", true
}

func validAct(a *Act) bool {
	switch a.K {
	case "ss", "sbs", "us", "ubs", "write", "wstr":
		return utf8.ValidString(a.S)
	case "sr", "ur":
		return utf8.ValidRune(rune(a.N))
	case "sb":
		return a.N < 0x80
	case "panic", "panicrt", "dump", "ret":
		return false
	}
	return true
}

type sfRunner struct{ acts []*Act }

func (s sfRunner) SafeFormat(p redact.SafePrinter, _ rune) {
	for _, a := range s.acts {
		runAction(a, p)
	}
}

func genQ09(w *bufio.Writer, rng *prng, n int, depth int) {
	q := &qw{w}
	// pieces of a marker delivered by separate calls (bytes that are not characters on their own):
	// no sequence of calls may assemble a marker; the three implementations stay well-formed and agree
	{
		pieces := []*Act{{K: "sb", N: 0xe2}, {K: "sb", N: 0x80}, {K: "sb", N: 0xb9}, {K: "sb", N: 0xba}, {K: "ss", S: "\xe2"}, {K: "ss", S: "\xe2\x80"},
			{K: "ss", S: "\x80\xb9"}, {K: "ss", S: "\xba"}, {K: "sbs", S: "\x80\xba"}, {K: "sbs", S: "\xe2"}, {K: "us", S: "u"}, {K: "us", S: ""}, {K: "ub", N: 0xe2}, {K: "sb", N: 'a'}}
		for i := 0; i < n/3+30; i++ {
			k := 2 + rng.intn(4)
			var acts []*Act
			for len(acts) < k {
				a := *pieces[rng.intn(len(pieces))]
				acts = append(acts, &a)
			}
			c := &pcase{entry: "builder", acts: acts}
			info := caseInfo(c)
			var bout, pout string
			bp, _ := try(func() {
				var sb redact.StringBuilder
				for _, a := range acts {
					applyBuilderAct(&sb, a)
				}
				bout = string(sb.RedactableString())
			})
			pp, _ := try(func() {
				pout = string(redact.Sprintfn(func(p redact.SafePrinter) {
					for _, a := range acts {
						runAction(a, p)
					}
				}))
			})
			q.truth("C11", "SafeWriter sequence panicked", !bp && !pp, info)
			if bp || pp {
				continue
			}
			q.pred("C09", "StringBuilder: result well-formed", "redactable", lit(bout), info)
			q.pred("C09", "Sprintfn printer: result well-formed", "redactable", lit(pout), info)
			// (the two need not agree here: the printer validates each piece on its own, the builder the run of pieces)
			fmt.Fprintln(w, runPCase(c))
			fmt.Fprintln(w, runPCase(&pcase{entry: "sprintfn", acts: acts}))
		}
	}
	for i := 0; i < n; i++ {
		g := &vgen{rng: rng, hostile: true, validUtf8: true, noFloats: false}
		var acts []*Act
		k := 1 + rng.intn(6)
		if rng.coin(1, 8) {
			k = 10 + rng.intn(30)
		}
		for len(acts) < k {
			a := g.action(depth)
			if validAct(a) {
				acts = append(acts, a)
			}
		}
		c := &pcase{entry: "builder", acts: acts, reg: false}
		prepCase(c)
		// expected contributions
		var stripE, delE []string
		okcase := true
		for _, a := range acts {
			safe, txt, isPrint := payloadOf(a)
			if isPrint {
				var inner string
				p, _ := try(func() {
					if a.K == "print" {
						inner = string(redact.Sprint(buildAll(a.Args)...))
					} else {
						inner = string(redact.Sprintf(a.S, buildAll(a.Args)...))
					}
				})
				if p {
					okcase = false
					break
				}
				stripE = append(stripE, fn("strip", lit(inner)))
				delE = append(delE, fn("delenv", lit(inner)))
				continue
			}
			stripE = append(stripE, fn("escm", lit(txt)))
			if safe {
				delE = append(delE, fn("escm", lit(txt)))
			} else {
				delE = append(delE, fn("lfonly", lit(txt)))
			}
		}
		if !okcase {
			continue
		}
		info := caseInfo(c)
		var bout, pout, sout string
		bp, _ := try(func() {
			var sb redact.StringBuilder
			for _, a := range acts {
				applyBuilderAct(&sb, a)
			}
			bout = string(sb.RedactableString())
		})
		pp, _ := try(func() {
			pout = string(redact.Sprintfn(func(p redact.SafePrinter) {
				for _, a := range acts {
					runAction(a, p)
				}
			}))
		})
		sp, _ := try(func() { sout = string(redact.Sprint(sfRunner{acts})) })
		if bp || pp || sp {
			q.truth("C11", "SafeWriter sequence panicked", false, info)
			continue
		}
		for _, o := range []struct{ name, out string }{{"StringBuilder", bout}, {"Sprintfn printer", pout}, {"SafeFormat printer", sout}} {
			q.pred("C09", o.name+": result well-formed", "redactable", lit(o.out), info)
			q.pred("C09", o.name+": result line-safe", "linesafe", lit(o.out), info)
			q.eq("C09", o.name+": stripped result = payloads in call order with markers replaced", fn("strip", lit(o.out)), cat(stripE...), info)
			q.eq("C09", o.name+": result without envelopes = safe payloads + line feeds of unsafe ones", fn("delenv", lit(o.out)), cat(delE...), info)
		}
		q.eq("C09", "builder and Sprintfn printer agree up to merging of adjacent envelopes", fn("norm", lit(bout)), fn("norm", lit(pout)), info)
		q.eq("C09", "Sprintfn printer and SafeFormat printer agree", lit(pout), lit(sout), info)
		// C13 on the builder: accessors at every position change nothing
		var b2 string
		lenOK := true
		_, _ = try(func() {
			var sb redact.StringBuilder
			for _, a := range acts {
				switch rng.intn(5) {
				case 0:
					_ = sb.Len()
				case 1:
					_ = sb.String()
				case 2:
					_ = sb.RedactableString()
				case 3:
					_ = sb.RedactableBytes()
				case 4:
					_ = sb.Cap()
				}
				applyBuilderAct(&sb, a)
				if sb.Len() != len(sb.RedactableString()) {
					lenOK = false
				}
			}
			b2 = string(sb.RedactableString())
		})
		q.eq("C13", "StringBuilder: accessors between the calls changed the result", lit(b2), lit(bout), info)
		q.truth("C13", "StringBuilder: Len() = len(RedactableString())", lenOK, info)
		fmt.Fprintln(w, runPCase(c))
		c2 := &pcase{entry: "sprintfn", acts: acts}
		fmt.Fprintln(w, runPCase(c2))
	}
}

// ------------------------------------------------------------------------
// C16: the routes agree

type failWriter struct {
	mode   int // 0 ok, 1 error, 2 short write, 3 short write reported without an error, 4 error after a partial write, 5 more than offered
	writes [][]byte
}

var errSink = errors.New("sink failed")

type wsWriter struct {
	writes, wstrings int
	buf              bytes.Buffer
}

func (w *wsWriter) Write(p []byte) (int, error)       { w.writes++; return w.buf.Write(p) }
func (w *wsWriter) WriteString(s string) (int, error) { w.wstrings++; return w.buf.WriteString(s) }

func (f *failWriter) Write(p []byte) (int, error) {
	f.writes = append(f.writes, append([]byte(nil), p...))
	switch f.mode {
	case 1:
		return 0, errSink
	case 2:
		return len(p) / 2, io.ErrShortWrite
	case 3:
		return len(p) / 2, nil
	case 4:
		return len(p) / 3, errSink
	case 5:
		return len(p) + 1, nil
	}
	return len(p), nil
}

type hidKey struct {
	A int
	b string
}

func genQ16(w *bufio.Writer, rng *prng, n int, depth int) {
	q := &qw{w}
	// a map operand whose keys differ in unexported fields only: every route prints the same order
	{
		m := map[hidKey]int{{1, "z"}: 1, {1, "a"}: 2, {1, "m"}: 3, {0, "q"}: 4, {1, "b"}: 5}
		first := string(redact.Sprint(m))
		same := true
		detail := ""
		for it := 0; it < 40 && same; it++ {
			var buf bytes.Buffer
			_, _ = redact.Fprint(&buf, m)
			var sb redact.StringBuilder
			sb.Print(m)
			nn := string(redact.Sprintfn(func(p redact.SafePrinter) { p.Print(m) }))
			for _, o := range []string{string(redact.Sprint(m)), buf.String(), string(sb.RedactableString()), nn, string(redact.Sprintf("%v", m))} {
				if o != first {
					same, detail = false, o+" vs "+first
				}
			}
		}
		q.truth("C16", "the routes print a map operand in different orders", same, detail)
		q.eq("C04", "StripMarkers(redact output) = fmt output with markers replaced", fn("strip", lit(first)), fn("escm", lit(fmt.Sprint(m))), "map keyed by a struct with an unexported field")
	}
	for i := 0; i < n; i++ {
		g := &vgen{rng: rng, hostile: true}
		c := &pcase{reg: rng.coin(1, 4)}
		if rng.coin(1, 6) {
			c.useHook = true
			c.hook = g.script(0)
		}
		isF := rng.coin(1, 2)
		if i%7 == 0 {
			// the printf routes on a %w directive, right after HelperForErrorf has used the pooled printers
			_, _ = try(func() { _, _ = redact.HelperForErrorf("h %w", errors.New("x")) })
			isF = true
			c.entry = "sprintf"
			c.format = rng.pick([]string{"pre %w|%v", "%v %[1]w", "%w", "%-8w|"})
			c.args = []*Val{{K: "usr", UK: 1, ID: newID(), PtrK: 1, Script: []*Act{{K: "ret", S: g.str()}}}, {K: "i", GoT: "int", I: 5}}
			if strings.Count(c.format, "%") == 1 {
				c.args = c.args[:1]
			}
		} else if isF {
			c.entry = "sprintf"
			c.args, c.format = g.formatFor(depth, rng.intn(4))
		} else {
			c.entry = "sprint"
			k := rng.intn(4)
			for j := 0; j < k; j++ {
				c.args = append(c.args, g.val(depth))
			}
		}
		if rng.coin(1, 8) {
			// one pre-redactable operand, possibly ending inside a UTF-8 sequence / a marker:
			// every route must finalize it the same way
			kind := rng.pick([]string{"rs", "rb"})
			tail := rng.pick([]string{"", "", "\xe2\x80", "\xff", "\xc3", "\xe2", "x\xf0\x9f"})
			c.args = []*Val{{K: kind, S: g.redactable() + tail}}
			if isF {
				c.format = rng.pick([]string{"%v", "%s", "a%vb", "%10v", "%q", "%x"})
			}
		}
		info := caseInfo(c)
		route := func(name string, f func(args []interface{}) string) (string, bool) {
			args := prepCase(c)
			var out string
			p, _ := try(func() { out = f(args) })
			return out, p
		}
		s, ps := route("S", func(a []interface{}) string {
			if isF {
				return string(redact.Sprintf(c.format, a...))
			}
			return string(redact.Sprint(a...))
		})
		mode := rng.intn(6)
		var fw *failWriter
		var fn_ int
		var ferr error
		fo, pf := route("F", func(a []interface{}) string {
			fw = &failWriter{mode: mode}
			if isF {
				fn_, ferr = redact.Fprintf(fw, c.format, a...)
			} else {
				fn_, ferr = redact.Fprint(fw, a...)
			}
			return string(concat(fw.writes))
		})
		bo, pb := route("B", func(a []interface{}) string {
			var sb redact.StringBuilder
			if isF {
				sb.Printf(c.format, a...)
			} else {
				sb.Print(a...)
			}
			return string(sb.RedactableString())
		})
		no, pn := route("N", func(a []interface{}) string {
			return string(redact.Sprintfn(func(p redact.SafePrinter) {
				if isF {
					p.Printf(c.format, a...)
				} else {
					p.Print(a...)
				}
			}))
		})
		// the SafeFormat method is reached through an arbitrary directive of the enclosing call:
		// its flags, width and precision are not those of the nested Print(f)
		outer := rng.pick([]string{"%v", "%v", "%+v", "%#v", "%s", "%+d", "% x", "%-5v", "%05d", "%+q", "%8.3v"})
		so, pS := route("SF", func(a []interface{}) string {
			return string(redact.Sprintf(outer, sfFunc(func(p redact.SafePrinter) {
				if isF {
					p.Printf(c.format, a...)
				} else {
					p.Print(a...)
				}
			})))
		})
		info += " outer=" + outer
		q.truth("C16", "the routes panic together", ps == pf && ps == pb && ps == pn, info)
		if ps || pf || pb || pn {
			continue
		}
		q.eq("C16", "Sprint(f) and Fprint(f) produce identical bytes", lit(s), lit(fo), info)
		q.eq("C16", "StringBuilder.Print(f) agrees with Sprint(f) up to merging", fn("norm", lit(bo)), fn("norm", lit(s)), info)
		q.eq("C16", "SafePrinter.Print(f) inside Sprintfn agrees with Sprint(f) up to merging", fn("norm", lit(no)), fn("norm", lit(s)), info)
		if !pS {
			q.eq("C16", "SafePrinter.Print(f) inside SafeFormat agrees with Sprint(f) up to merging", fn("norm", lit(so)), fn("norm", lit(s)), info)
		}
		q.truth("C16", "Fprint(f) delivers the text in a single Write", len(fw.writes) == 1, info)
		{
			// a writer that also has WriteString (an embedded *bytes.Buffer with Write overridden):
			// the text must still arrive through Write, once
			ws := &wsWriter{}
			_, _ = try(func() {
				if isF {
					_, _ = redact.Fprintf(ws, c.format, prepCase(c)...)
				} else {
					_, _ = redact.Fprint(ws, prepCase(c)...)
				}
			})
			q.truth("C16", "Fprint(f) delivers the text in a single Write (writer that also has WriteString)", ws.writes == 1 && ws.wstrings == 0 && ws.buf.String() == fo, info)
		}
		wantN, wantErr := len(fo), error(nil)
		switch mode {
		case 1:
			wantN, wantErr = 0, errSink
		case 2:
			wantN, wantErr = len(fo)/2, io.ErrShortWrite
		case 3:
			wantN, wantErr = len(fo)/2, nil
		case 4:
			wantN, wantErr = len(fo)/3, errSink
		case 5:
			wantN, wantErr = len(fo)+1, nil
		}
		q.truth("C16", "Fprint(f) returns the writer's count and error", fn_ == wantN && ferr == wantErr, info)
		fmt.Fprintln(w, runPCase(c))
		c2 := *c
		if isF {
			c2.entry = "fprintf"
		} else {
			c2.entry = "fprint"
		}
		fmt.Fprintln(w, runPCase(&c2))
		// several Print/Printf calls in a row on one StringBuilder / one SafePrinter: the text is the
		// concatenation of what Sprint/Sprintf give for each (formats without operands, literals
		// ending in the middle of a UTF-8 sequence or of a marker included)
		if i%3 == 0 {
			genQ16seq(q, w, rng, depth)
		}
	}
}

func genQ16seq(q *qw, w *bufio.Writer, rng *prng, depth int) {
	g := &vgen{rng: rng, hostile: true}
	c := &pcase{reg: false, entry: "builder"}
	k := 2 + rng.intn(2)
	tails := []string{"x\xe2\x80", "\xb9y", "x\xff", "y", "a\xe2", "\x80\xb9", "‹", "›z", "\n", "é", "x\xc3", "\xa9"}
	for j := 0; j < k; j++ {
		switch rng.intn(4) {
		case 0:
			c.acts = append(c.acts, &Act{K: "printf", S: rng.pick(tails) + rng.pick(tails)})
		case 1:
			c.acts = append(c.acts, &Act{K: "printf", S: rng.pick(tails)})
		case 2:
			args, f := g.formatFor(depth, rng.intn(2))
			c.acts = append(c.acts, &Act{K: "printf", S: f, Args: args})
		default:
			a := &Act{K: "print"}
			for x := rng.intn(3); x > 0; x-- {
				a.Args = append(a.Args, g.val(depth))
			}
			c.acts = append(c.acts, a)
		}
	}
	info := caseInfo(c)
	prepCase(c)
	var parts []string
	var bo, no string
	panicked, _ := try(func() {
		for _, a := range c.acts {
			if a.K == "printf" {
				parts = append(parts, lit(string(redact.Sprintf(a.S, buildAll(a.Args)...))))
			} else {
				parts = append(parts, lit(string(redact.Sprint(buildAll(a.Args)...))))
			}
		}
		var sb redact.StringBuilder
		for _, a := range c.acts {
			applyBuilderAct(&sb, a)
		}
		bo = string(sb.RedactableString())
		no = string(redact.Sprintfn(func(p redact.SafePrinter) {
			for _, a := range c.acts {
				runAction(a, p)
			}
		}))
	})
	if panicked {
		return
	}
	q.eq("C16", "consecutive StringBuilder.Print(f) calls do not give the concatenation of the Sprint(f) results", fn("norm", lit(bo)), fn("norm", cat(parts...)), info)
	q.eq("C16", "consecutive SafePrinter.Print(f) calls inside Sprintfn do not give the concatenation of the Sprint(f) results", fn("norm", lit(no)), fn("norm", cat(parts...)), info)
	fmt.Fprintln(w, runPCase(c))
	c3 := *c
	c3.entry = "sprintfn"
	fmt.Fprintln(w, runPCase(&c3))
}

type sfFunc func(p redact.SafePrinter)

func (f sfFunc) SafeFormat(p redact.SafePrinter, _ rune) { f(p) }

// ------------------------------------------------------------------------
// C11: nothing panics; user-method panics are contained

type anyStringer struct{ f func() string }

func (a anyStringer) String() string { return a.f() }

func genQ11(w *bufio.Writer, rng *prng, n int, depth int) {
	q := &qw{w}
	setRegistry(false)
	setHook(nil)
	// every rune class and every byte through every SafeWriter in several buffer states
	runes := []rune{-1 << 31, -2, -1, 0, 'a', '\n', 0x7f, 0x80, 0x7ff, 0x800, 0x2039, 0x203a, 0xd7ff, 0xd800, 0xdabc, 0xdfff, 0xe000, 0xfffd, 0xffff, 0x10000, 0x10ffff, 0x110000, 1<<31 - 1}
	for r := rune(0xd800); r <= 0xdfff; r += 0x25 {
		runes = append(runes, r)
	}
	prefixes := []func(sw redact.SafeWriter){
		func(sw redact.SafeWriter) {},
		func(sw redact.SafeWriter) { sw.SafeString("s") },
		func(sw redact.SafeWriter) { sw.UnsafeString("u") },
		func(sw redact.SafeWriter) { sw.UnsafeString("u‹\n") },
		func(sw redact.SafeWriter) { sw.UnsafeString(""); sw.SafeString("") },
	}
	for pi, pre := range prefixes {
		for _, r := range runes {
			r := r
			info := fmt.Sprintf("prefix %d rune %#x", pi, r)
			for _, safe := range []bool{true, false} {
				do := func(sw redact.SafeWriter) {
					pre(sw)
					if safe {
						sw.SafeRune(redact.SafeRune(r))
					} else {
						sw.UnsafeRune(r)
					}
					sw.SafeString("|end")
				}
				var bout, pout string
				p1, _ := try(func() { var sb redact.StringBuilder; do(&sb); bout = string(sb.RedactableString()) })
				p2, _ := try(func() { pout = string(redact.Sprintfn(func(p redact.SafePrinter) { do(p) })) })
				q.truth("C11", "SafeRune/UnsafeRune on StringBuilder panicked", !p1, info)
				q.truth("C11", "SafeRune/UnsafeRune on SafePrinter panicked", !p2, info)
				if !p1 && !p2 {
					want := string(r)
					if !utf8.ValidRune(r) {
						want = "�"
					}
					var pre0 redact.StringBuilder
					pre(&pre0)
					q.eq("C11", "rune lost or earlier output lost (builder)", fn("strip", lit(bout)), cat(fn("strip", lit(string(pre0.RedactableString()))), fn("escm", lit(want)), lit("|end")), info)
					q.eq("C11", "rune lost or earlier output lost (printer)", fn("strip", lit(pout)), cat(fn("strip", lit(string(pre0.RedactableString()))), fn("escm", lit(want)), lit("|end")), info)
					q.pred("C01", "well-formed", "redactable", lit(bout), info)
					q.pred("C01", "well-formed", "redactable", lit(pout), info)
				}
				// ManualBuffer.WriteRune in the three modes
				for m := 0; m < 3; m++ {
					p3, _ := try(func() {
						var mb redact.ManualBuffer
						setModeManual(&mb, int64(m))
						_ = mb.WriteRune(r)
						_ = mb.RedactableString()
					})
					q.truth("C11", "ManualBuffer.WriteRune panicked", !p3, info)
				}
			}
		}
		for b := 0; b < 256; b++ {
			b := byte(b)
			info := fmt.Sprintf("prefix %d byte %#x", pi, b)
			p1, _ := try(func() {
				var sb redact.StringBuilder
				pre(&sb)
				sb.SafeByte(ifaces.SafeByte(b))
				sb.UnsafeByte(b)
				_ = sb.WriteByte(b)
				_ = sb.RedactableString()
			})
			p2, _ := try(func() {
				_ = redact.Sprintfn(func(p redact.SafePrinter) { pre(p); p.SafeByte(ifaces.SafeByte(b)); p.UnsafeByte(b) })
			})
			q.truth("C11", "byte writers panicked", !p1 && !p2, info)
		}
	}
	// a panic that escaped from a nested printer (payload whose own printing panics) must not
	// leave anything on the recycled printers: the next ordinary method panic is still contained
	simple := func() string { return string(redact.Sprint(churnStringer{}, 1.5)) }
	baseline := simple()
	dbl := anyStringer{func() string { panic(anyStringer{func() string { panic("inner") }}) }}
	histories := []func(){
		func() { _ = redact.Sprint(sfFunc(func(p redact.SafePrinter) { p.Print(dbl) })) },
		func() {
			_ = redact.Sprintf("%v|%d", sfFunc(func(p redact.SafePrinter) { p.Printf("%s %d", dbl, 3) }), 4)
		},
		func() {
			_ = redact.Sprint([]interface{}{sfFunc(func(p redact.SafePrinter) { p.SafeString("a"); p.Print(1, dbl) })})
		},
		func() {
			_ = redact.Sprintfn(func(p redact.SafePrinter) { p.Print(sfFunc(func(p2 redact.SafePrinter) { p2.Print(dbl) })) })
		},
	}
	for hi, h := range histories {
		for round := 0; round < 3; round++ {
			_, _ = try(h)
			for k := 0; k < 3; k++ {
				var out string
				p, pv := try(func() { out = simple() })
				info := fmt.Sprintf("history %d round %d probe %d panic value %v", hi, round, k, pv)
				q.truth("C11", "an ordinary user-method panic escaped from a call that follows a nested double panic", !p, info)
				if !p {
					q.eq("C11", "the panic report after a nested double panic", lit(out), lit(baseline), info)
				}
			}
		}
	}
	// integers whose zero padding / precision exceeds the formatter's scratch array
	for _, verb := range "dxXobO" {
		for _, fl := range []string{"0", "+0", "0#", "0 ", "", "#"} {
			for _, wd := range []string{"60", "64", "65", "66", "67", "68", "69", "70", "71", "72", "100", "200", ".64", ".66", ".68", ".69", ".70", "70.70", "3.100"} {
				if !rng.coin(1, 3) {
					continue
				}
				for _, x := range []int64{-1, 7, 1<<63 - 1, -1 << 63} {
					f := "[%" + fl + wd + string(verb) + "]"
					c := &pcase{entry: "sprintf", format: f, args: []*Val{{K: "i", GoT: "int64", I: x}}}
					args := prepCase(c)
					var out string
					p, pv := try(func() { out = string(redact.Sprintf(f, args...)) })
					info := fmt.Sprintf("format %q operand %d panic value %v", f, x, pv)
					q.truth("C11", "a wide integer directive panicked", !p, info)
					if !p {
						q.eq("C04", "StripMarkers(redact output) = fmt output", fn("strip", lit(out)), lit(fmt.Sprintf(f, x)), info)
						fmt.Fprintln(w, runPCase(c))
					}
				}
			}
		}
	}
	// the character verbs on every rune class (surrogates, negative, above MaxRune) and integer type
	for _, r := range runes {
		for _, f := range []string{"%c", "[%3c]", "[%-3c]", "%q", "%#q", "%+q", "%U", "%#U", "%#.6U", "%v %c", "%#.60U", "%#.64U", "%#.70U", "%#70.68U", "%.66U", "%#-75.3U|"} {
			if !rng.coin(1, 2) {
				continue
			}
			vals := []*Val{{K: "i", GoT: "int", I: int64(r)}, {K: "i", GoT: "int32", I: int64(r)}, {K: "i", GoT: "int64", I: int64(r) << 8},
				{K: "u", GoT: "uint64", U: uint64(int64(r))}, {K: "i", GoT: "SafeInt", I: int64(r)}}
			if r >= 0 && r <= 0xffff {
				vals = append(vals, &Val{K: "u", GoT: "uint16", U: uint64(r)})
			}
			v := vals[rng.intn(len(vals))]
			c := &pcase{entry: "sprintf", format: f, args: []*Val{v}}
			if strings.Count(f, "%") == 2 {
				c.args = append(c.args, v)
			}
			if rng.coin(1, 4) {
				c.args = []*Val{{K: "sl", GoT: "[]interface{}", Elems: c.args}}
				c.format = strings.SplitN(f, " ", 2)[0]
			}
			args := prepCase(c)
			var out string
			p, pv := try(func() { out = string(redact.Sprintf(c.format, args...)) })
			info := fmt.Sprintf("format %q operand %s panic value %v", c.format, dslAll(c.args), pv)
			q.truth("C11", "a character verb panicked", !p, info)
			if !p {
				q.eq("C04", "StripMarkers(redact output) = fmt output", fn("strip", lit(out)), fn("escm", lit(fmt.Sprintf(c.format, args...))), info)
				fmt.Fprintln(w, runPCase(c))
			}
		}
	}
	genIndexGrammar(q, w, rng)
	// maps whose keys need the full key ordering (nil interface keys, mixed kinds, struct and array keys)
	for _, m := range []interface{}{map[interface{}]int{nil: 1, "a": 2, 3: 3}, map[interface{}]interface{}{nil: nil, 2.5: nil, true: 1, [2]int{1, 2}: "x"},
		map[nvKey]interface{}{{1, "b"}: nil, {1, "a"}: 2}, map[[2]interface{}]int{{nil, 1}: 1, {"a", nil}: 2, {nil, nil}: 3}, map[*int]int{nil: 1}, map[error]int{nil: 0, errSink: 1}} {
		for _, d := range []string{"%v", "%+v", "%#v", "%d", "%s"} {
			var out string
			p, pv := try(func() { out = string(redact.Sprintf(d, m)) })
			info := fmt.Sprintf("directive %q operand %T panic value %v", d, m, pv)
			q.truth("C11", "printing a map panicked", !p, info)
			if !p && d != "%#v" {
				q.eq("C04", "StripMarkers(redact output) = fmt output with markers replaced", fn("strip", lit(out)), fn("escm", lit(fmt.Sprintf(d, m))), info)
			}
		}
	}
	// JoinTo with operands that are not slices
	operands := []interface{}{5, nil, "str", [2]int{1, 2}, struct{ A int }{3}, (*int)(nil), map[string]int{"a": 1}, 3.5, []int(nil), []interface{}{}, []interface{}{nil, 1}, error(nil), redact.Safe(3), []string{"a", "b"}}
	for _, op := range operands {
		op := op
		info := fmt.Sprintf("JoinTo operand %T %v", op, op)
		var out string
		p, _ := try(func() {
			var sb redact.StringBuilder
			redact.JoinTo(&sb, redact.RedactableString(","), op)
			out = string(sb.RedactableString())
		})
		q.truth("C11", "JoinTo panicked", !p, info)
		if !p {
			rv := reflect.ValueOf(op)
			if op == nil || rv.Kind() != reflect.Slice {
				q.eq("C11", "JoinTo of a non-slice prints the value once", lit(out), lit(string(redact.Sprint(op))), info)
			} else {
				var parts []string
				for i := 0; i < rv.Len(); i++ {
					parts = append(parts, string(redact.Sprint(rv.Index(i).Interface())))
				}
				q.eq("C11", "JoinTo of a slice", lit(out), lit(strings.Join(parts, ",")), info)
			}
		}
	}
	// containment of user-method panics: text before and after intact
	for i := 0; i < n; i++ {
		g := &vgen{rng: rng, hostile: true}
		c := &pcase{reg: rng.coin(1, 4)}
		if rng.coin(1, 4) {
			c.useHook = true
			c.hook = g.script(1)
		}
		v := g.user(depth, nil)
		// make it panic at a random point of its script
		pos := rng.intn(len(v.Script) + 1)
		pa := &Act{K: "panic", Args: []*Val{g.panicPayload(0)}}
		v.Script = append(v.Script[:pos:pos], append([]*Act{pa}, v.Script[pos:]...)...)
		holder := v
		switch rng.intn(4) {
		case 0:
			holder = &Val{K: "sl", GoT: "[]interface{}", Elems: []*Val{{K: "i", GoT: "int", I: 1}, v, {K: "s", GoT: "string", S: "z"}}}
		case 1:
			holder = &Val{K: "st", GoT: "St2", Elems: []*Val{v, {K: "nil"}}}
		}
		c.entry = "sprintf"
		c.format = "PRE‹ %d " + rng.pick([]string{"%v", "%s", "%+v", "%d", "%x", "%q"}) + " POST› %s"
		c.args = []*Val{{K: "i", GoT: "int", I: 42}, holder, {K: "s", GoT: "string", S: "tail"}}
		args := prepCase(c)
		var out string
		p, pv := try(func() { out = string(redact.Sprintf(c.format, args...)) })
		info := caseInfo(c)
		if p {
			info += fmt.Sprintf(" panic value: %T %v hook=%v", pv, pv, c.useHook)
		}
		q.truth("C11", "a user method panic (plain payload) escaped", !p || panicMayPropagate(c), info)
		if !p {
			q.truth("C11", "text before the panicking operand intact", strings.HasPrefix(out, "PRE? ‹42› "), info)
			q.truth("C11", "text after the panicking operand intact", strings.HasSuffix(out, " POST? ‹tail›"), info)
			q.pred("C01", "well-formed", "redactable", lit(out), info)
		}
		fmt.Fprintln(w, runPCase(c))
	}
}

// ------------------------------------------------------------------------
// C12: results do not depend on the history of the process

type probeFn struct {
	name string
	f    func() string
}

type wfmt struct{}

func (wfmt) Format(s fmt.State, verb rune) { _, _ = s.Write([]byte(dumpState(s))) }

type sfNested struct{ x interface{} }

func (s sfNested) SafeFormat(p redact.SafePrinter, _ rune) { p.Printf("n<%v>", s.x) }

func c12probes() []probeFn {
	e := errors.New("probe-err")
	return []probeFn{
		// first, so that it runs right after the history: special float values under every sign flag
		{"NaN/Inf signs", func() string {
			return string(redact.Sprintf("% f|% e|% g|%+f|%f|% 8.2f|% v|% f|% v", math.NaN(), math.NaN(), math.NaN(), math.NaN(), math.NaN(), math.NaN(), complex(math.NaN(), 1), math.Inf(1), float32(math.NaN())))
		}},
		{"Sprintf %v state", func() string { return string(redact.Sprintf("%v", wfmt{})) }},
		{"Sprint state", func() string { return string(redact.Sprint(wfmt{}, 1)) }},
		{"Sprintf %d str", func() string { return string(redact.Sprintf("%d %s", 7, "x")) }},
		{"Sprintf unsafe str", func() string { return string(redact.Sprintf("login by %s from %v", "user", 123)) }},
		{"Sprintf safe", func() string {
			return string(redact.Sprintf("%v %v", redact.Safe("pub"), redact.Unsafe(redact.SafeString("s"))))
		}},
		{"Sprintf [2]", func() string { return string(redact.Sprintf("%[2]d %[1]d", 1, 2)) }},
		{"Sprintf bad index", func() string { return string(redact.Sprintf("%[5]d %d", 1)) }},
		{"Sprintf panic", func() string {
			return string(redact.Sprintf("%v", anyStringer{func() string { panic("boom") }}))
		}},
		{"Errorf", func() string {
			s, err := redact.HelperForErrorf("w: %w", e)
			return fmt.Sprintf("%s|%v", s, err == e)
		}},
		{"Errorf no w", func() string {
			s, err := redact.HelperForErrorf("nothing %d", 1)
			return fmt.Sprintf("%s|%v", s, err == nil)
		}},
		{"Sprintf %w", func() string { return string(redact.Sprintf("%w", e)) }},
		{"Sprintfn", func() string {
			return string(redact.Sprintfn(func(p redact.SafePrinter) { p.Printf("%d", 1); p.UnsafeString("u"); p.Print(wfmt{}) }))
		}},
		{"nested", func() string {
			return string(redact.Sprint(sfNested{"x"}, redact.Safe(sfNested{2}), redact.Unsafe(sfNested{3})))
		}},
		{"builder", func() string {
			var sb redact.StringBuilder
			sb.Printf("%5.2f|%v", 3.14159, wfmt{})
			sb.UnsafeString("u")
			return string(sb.RedactableString())
		}},
		{"Fprintf", func() string { var b bytes.Buffer; _, _ = redact.Fprintf(&b, "%x %q", "hi", 'x'); return b.String() }},
		{"EscapeBytes", func() string { return string(redact.EscapeBytes([]byte("a‹b\nc"))) }},
		{"struct %+v", func() string { return string(redact.Sprintf("%+v|%#v", sameNameB(), sameNameB())) }},
		{"Sprintfn writers and state", func() string {
			return string(redact.Sprintfn(func(w redact.SafePrinter) {
				w.SafeInt(7)
				w.SafeUint(3)
				w.SafeFloat(1.5)
				w.UnsafeString("u")
				wid, wok := w.Width()
				prec, pok := w.Precision()
				w.Printf("|%d%v%d%v%v%v%v", wid, wok, prec, pok, w.Flag('+'), w.Flag('0'), w.Flag('#'))
			}))
		}},
	}
}

// two different struct types whose reflect.Type.String() is the same (function-local types of the
// same name): the first is printed by histories only, the second by a probe only
func sameNameA() interface{} {
	type rec struct{ User, Addr string }
	return rec{"alice", "10.0.0.1"}
}

func sameNameB() interface{} {
	type rec struct {
		Card   string
		Amount int
	}
	return rec{"4111", 250}
}

func c12history(g *vgen, depth int) {
	rng := g.rng
	k := 1 + rng.intn(6)
	for j := 0; j < k; j++ {
		switch rng.intn(13) {
		case 12:
			_ = redact.Sprintf(rng.pick([]string{"%+08d", "%-#12.5x", "% 9.3f|%+v"}), 5, 2)
			_ = redact.Sprintf(rng.pick([]string{"%+v", "%#v", "%v"}), sameNameA())
			_ = redact.Sprintfn(func(p redact.SafePrinter) { p.Printf("%+v", sameNameA()) })
		case 0: // very large output: the printer's buffer is dropped, not recycled
			_ = redact.Sprintf("%70000d %s", 1, strings.Repeat("x", 100))
		case 1:
			_, _ = try(func() {
				_ = redact.Sprintf("%v", anyStringer{func() string { panic(anyStringer{func() string { panic("inner") }}) }})
			})
		case 2:
			_, _ = try(func() {
				_ = redact.Sprint(sfFunc(func(p redact.SafePrinter) {
					p.Printf("%v %v", "SECRET", anyStringer{func() string { panic(anyStringer{func() string { panic("inner") }}) }})
				}))
			})
		case 3:
			_, _ = redact.HelperForErrorf("%w %12.7d", errors.New("h"), 5)
		case 4:
			_, _ = redact.HelperForErrorf("%w %w", errors.New("h"), errors.New("h2"))
		case 5:
			_ = redact.Sprintf("%[3]*.[2]*[1]f %-+#12.5x", 1.0, 2, 3, 77)
		case 6:
			_ = redact.Sprint(redact.Safe(sfNested{redact.Unsafe(1)}), redact.Unsafe(sfNested{redact.Safe(2)}))
		case 7:
			_, _ = try(func() {
				_ = redact.Sprintfn(func(p redact.SafePrinter) { p.SafeString("x"); p.UnsafeString("y"); panic("callback") })
			})
		case 8:
			_ = redact.Sprintf("%!z %", 1)
		default:
			c := &pcase{reg: false}
			c.entry = "sprintf"
			c.args, c.format = g.formatFor(depth, 1+rng.intn(3))
			args := prepCase(c)
			_, _ = try(func() { _ = redact.Sprintf(c.format, args...) })
		}
	}
}

func c12edgeHistories() []func() {
	var hs []func()
	for _, mal := range []string{"›", "‹", "a›", "‹a", "››", "‹›‹", "\xe2\x80", "›\n", ""} {
		for _, tail := range []string{"", "x", "\n"} {
			mal, tail := mal, tail
			hs = append(hs,
				func() { _ = redact.Sprint(redact.RedactableString(mal), tail) },
				func() { _ = redact.Sprintf("%s%s", redact.RedactableBytes(mal), tail) },
				func() { _ = redact.Sprintf("%v%d", redact.RedactableString(mal), []int{}) },
				func() {
					_ = redact.Sprintfn(func(w redact.SafePrinter) { w.Print(redact.RedactableString(mal)); w.UnsafeString(tail) })
				},
				func() {
					_ = redact.Sprint(sfFunc(func(p redact.SafePrinter) { p.Print(redact.RedactableString(mal)); p.UnsafeString(tail) }))
				},
				func() { _, _ = redact.Fprint(io.Discard, redact.RedactableString(mal), redact.Unsafe(tail)) },
				func() { _, _ = redact.HelperForErrorf("%s%s", redact.RedactableString(mal), tail) })
		}
	}
	return hs
}

func genQ12(w *bufio.Writer, rng *prng, n int, depth int, baseline bool) {
	probes := c12probes()
	if baseline {
		// fresh process: print the probe results, one per line
		for _, p := range probes {
			fmt.Fprintln(w, hxs(p.f()))
		}
		return
	}
	q := &qw{w}
	setRegistry(false)
	setHook(nil)
	// results of a fresh process: re-execute this binary
	cmd := exec.Command(os.Args[0], "-gen", "q12-baseline")
	out, err := cmd.Output()
	base := strings.Fields(string(out))
	if err != nil || len(base) != len(probes) {
		q.truth("C12", "baseline process failed", false, fmt.Sprint(err))
		return
	}
	// process-wide state keyed by something coarser than the type: the namesake type is printed
	// before the probe's type is ever seen in this process (the baseline process never prints it)
	_ = redact.Sprintf("%+v %#v", sameNameA(), sameNameA())
	allocs0 := redact.VerifPoolAllocs()
	calls := 0
	// fixed edge histories first: a caller-made (malformed) pre-redactable operand - lone or dangling
	// markers, a truncated marker - followed by an empty or non-empty unsafe value, on every route;
	// such a call may end with the printer's buffer in a state no well-formed history reaches
	edge := c12edgeHistories()
	for i := 0; i < n+len(edge); i++ {
		g := &vgen{rng: rng, hostile: true}
		if i < len(edge) {
			_, _ = try(edge[i])
		} else {
			c12history(g, depth)
		}
		setRegistry(false)
		setHook(nil)
		for pi, p := range probes {
			var got string
			pn, _ := try(func() { got = p.f() })
			calls++
			q.truth("C12", "probe panicked after a history", !pn, p.name)
			if !pn {
				q.eq("C12", "probe "+p.name+" differs from its result in a fresh process", lit(got), base[pi], fmt.Sprintf("history %d seed-derived", i))
			}
		}
	}
	allocs := redact.VerifPoolAllocs() - allocs0
	q.truth("C12", "probes ran on recycled printers (pool allocations far below number of calls)", allocs*4 < int64(calls), fmt.Sprintf("allocs=%d calls=%d", allocs, calls))
	// a type registered as safe AFTER values of it have been printed (on printers now in the pool)
	{
		redact.VerifResetSafeTypes()
		type lateT int
		before := string(redact.Sprintf("id=%v", lateT(7)))
		_ = redact.Sprint(lateT(8))
		redact.RegisterSafeType(reflect.TypeOf(lateT(0)))
		after1, after2 := string(redact.Sprint(lateT(7))), string(redact.Sprintf("id=%d %v", lateT(8), []lateT{9}))
		redact.VerifResetSafeTypes()
		again := string(redact.Sprintf("id=%v", lateT(7)))
		q.truth("C12", "RegisterSafeType takes effect for calls made after it (recycled printers included)", before == "id=‹7›" && after1 == "7" && after2 == "id=8 [9]" && again == "id=‹7›",
			fmt.Sprintf("before=%q after=%q %q again=%q", before, after1, after2, again))
	}
	// builders of every fill level around the growth steps: an accessor, unrelated calls, then more writes
	{
		badB := ""
		for nfill := 55; nfill <= 140; nfill++ {
			var sb redact.StringBuilder
			body := strings.Repeat("a", nfill)
			sb.UnsafeString(body)
			_ = sb.RedactableString()
			_ = sb.Len()
			_ = redact.Sprint(strings.Repeat("k", 80))
			_ = redact.Sprintf("%s|%d", strings.Repeat("m", nfill+3), nfill)
			sb.UnsafeString("z")
			if got, want := string(sb.RedactableString()), "‹"+body+"z›"; got != want {
				badB = fmt.Sprintf("fill %d: got %q want %q", nfill, got, want)
				break
			}
		}
		// ... and builders steered to a full (or nearly full) array of every capacity class
		for trial := 0; trial < 300 && badB == ""; trial++ {
			var sb redact.StringBuilder
			want := ""
			first := 1 + rng.intn(150)
			sb.UnsafeString(strings.Repeat("b", first))
			want += strings.Repeat("b", first)
			for step := 0; step < 3; step++ {
				room := sb.Cap() - len(sb.RedactableString()) + 3 // the closing marker is not in the buffer yet
				k := room - rng.intn(4)
				if k <= 0 {
					break
				}
				sb.UnsafeString(strings.Repeat("c", k))
				want += strings.Repeat("c", k)
				if rng.coin(1, 2) {
					break
				}
			}
			_ = sb.RedactableString()
			_ = sb.Len()
			_ = sb.String()
			for _, sz := range []int{70, 80, 100, 130, 200, 260} {
				_ = redact.Sprint(strings.Repeat("k", sz))
				var other redact.StringBuilder
				other.UnsafeString(strings.Repeat("o", sz))
				_ = other.RedactableString()
			}
			sb.UnsafeString("z")
			if got, w2 := string(sb.RedactableString()), "‹"+want+"z›"; got != w2 {
				badB = fmt.Sprintf("trial %d: got %q want %q", trial, got, w2)
			}
		}
		q.truth("C12", "a StringBuilder's contents changed by unrelated print calls", badB == "", badB)
	}
	// paddings of both kinds (zeros, blanks) from concurrent goroutines, each compared with the result
	// computed before the goroutines started
	{
		padProbes := []func() string{
			func() string { return string(redact.Sprintf("%012.3f|%-9s|%9v", 3.25, "ab", true)) },
			func() string { return string(redact.Sprintf("%05s|%07q|%08.2e", "bob", "q", 1234.5)) },
			func() string { return string(redact.Sprintf("%9s|%-12v|%6d", "bob", 1.5, 42)) },
			func() string { return string(redact.Sprintf("%06t|%10x|%-10X|", true, "hi", "hi")) },
		}
		want := make([]string, len(padProbes))
		for i, f := range padProbes {
			want[i] = f()
		}
		var wg sync.WaitGroup
		var mu sync.Mutex
		badPad := ""
		for gi := 0; gi < 16; gi++ {
			wg.Add(1)
			go func(gi int) {
				defer wg.Done()
				for it := 0; it < 2000; it++ {
					k := (gi + it) % len(padProbes)
					if got := padProbes[k](); got != want[k] {
						mu.Lock()
						badPad = fmt.Sprintf("probe %d: got %q want %q", k, got, want[k])
						mu.Unlock()
						return
					}
				}
			}(gi)
		}
		wg.Wait()
		q.truth("C12", "padded output differs under 16 concurrent goroutines", badPad == "", badPad)
	}
	// 16 goroutines issuing mixed calls: each compares its own probe results with the baseline
	var wg sync.WaitGroup
	var mu sync.Mutex
	bad := map[string]string{}
	for gi := 0; gi < 16; gi++ {
		wg.Add(1)
		go func(gi int) {
			defer wg.Done()
			lr := newPrng(uint64(gi) + 1000*rng.next()%1000)
			for it := 0; it < 40; it++ {
				pi := lr.intn(len(probes))
				if probes[pi].name == "Sprintf panic" {
					continue
				}
				got := ""
				pn, _ := try(func() { got = probes[pi].f() })
				if pn || hxs(got) != base[pi] {
					mu.Lock()
					bad[probes[pi].name] = got
					mu.Unlock()
				}
				if it%5 == 0 {
					_ = redact.Sprintf("%70000d", gi)
				}
			}
		}(gi)
	}
	wg.Wait()
	for name, got := range bad {
		q.truth("C12", "probe "+name+" differs under 16 concurrent goroutines", false, got)
	}
	q.truth("C12", "concurrent probes ran", true, "16 goroutines x 40 calls")
}

// ------------------------------------------------------------------------
// C14: MakeFormat

type stateRec struct {
	flags      [5]bool
	wid, prec  int
	wok, pok   bool
	verb       rune
	justV      bool
	reproduced string
}

type probeF struct{ rec *stateRec }

func (p probeF) Format(s fmt.State, verb rune) {
	for i, c := range "+-# 0" {
		p.rec.flags[i] = s.Flag(int(c))
	}
	p.rec.wid, p.rec.wok = s.Width()
	p.rec.prec, p.rec.pok = s.Precision()
	p.rec.verb = verb
	p.rec.justV, p.rec.reproduced = redact.MakeFormat(s, verb)
}

// a SafeFormatter that first uses the printer's own number writers, then reads the directive
type sfNumThenProbe struct{ rec *stateRec }

func (p sfNumThenProbe) SafeFormat(sp redact.SafePrinter, verb rune) {
	sp.SafeInt(3)
	sp.SafeUint(4)
	sp.SafeFloat(1.5)
	sp.SafeRune('r')
	sp.SafeString("s")
	sp.UnsafeString("u")
	for i, c := range "+-# 0" {
		p.rec.flags[i] = sp.Flag(int(c))
	}
	p.rec.wid, p.rec.wok = sp.Width()
	p.rec.prec, p.rec.pok = sp.Precision()
	p.rec.verb = verb
	p.rec.justV, p.rec.reproduced = redact.MakeFormat(sp, verb)
}

type fwd struct{ x interface{} }

func (f fwd) Format(s fmt.State, verb rune) {
	_, ff := redact.MakeFormat(s, verb)
	fmt.Fprintf(s, ff, f.x)
}

// elements printed before a Formatter in the same container: values whose rendering switches
// formatter flags off and on again (NaN and infinities drop '0', bad verbs clear everything ...)
var siblings = []interface{}{math.NaN(), math.Inf(1), math.Inf(-1), float32(math.NaN()), nil, true, 5, "s", []byte("b"), (*int)(nil), 2.5, -1, uint8(3), struct{ A float64 }{math.NaN()},
	0, uint16(0), 0.0, "", false, complex(1, 2), []int{0, 1}, 'x', int64(0)}
var siblingVals = []func() *Val{
	func() *Val { return &Val{K: "f", GoT: "float64", F: math.NaN()} },
	func() *Val { return &Val{K: "f", GoT: "float64", F: math.Inf(1)} },
	func() *Val { return &Val{K: "f", GoT: "float64", F: math.Inf(-1)} },
	func() *Val { return &Val{K: "f", GoT: "float32", F: math.NaN()} },
	func() *Val { return &Val{K: "nil"} },
	func() *Val { return &Val{K: "b", GoT: "bool", B: true} },
	func() *Val { return &Val{K: "i", GoT: "int", I: 5} },
	func() *Val { return &Val{K: "s", GoT: "string", S: "s"} },
	func() *Val { return &Val{K: "bs", GoT: "[]byte", S: "b"} },
	func() *Val { return &Val{K: "ptr", GoT: "*int", Nil: true, Elems: []*Val{{K: "i", GoT: "int", I: 5}}} },
	func() *Val { return &Val{K: "f", GoT: "float64", F: 2.5} },
	func() *Val { return &Val{K: "i", GoT: "int", I: -1} },
	func() *Val { return &Val{K: "u", GoT: "uint8", U: 3} },
	func() *Val { return &Val{K: "safe", Elems: []*Val{{K: "f", GoT: "float64", F: math.NaN()}}} },
	func() *Val { return &Val{K: "i", GoT: "int", I: 0} },
	func() *Val { return &Val{K: "u", GoT: "uint16", U: 0} },
	func() *Val { return &Val{K: "f", GoT: "float64", F: 0} },
	func() *Val { return &Val{K: "s", GoT: "string", S: ""} },
	func() *Val { return &Val{K: "b", GoT: "bool", B: false} },
	func() *Val {
		return &Val{K: "sl", GoT: "[]int", Elems: []*Val{{K: "i", GoT: "int", I: 0}, {K: "i", GoT: "int", I: 1}}}
	},
	func() *Val { return &Val{K: "i", GoT: "int64", I: 0} },
}

func genQ14(w *bufio.Writer, rng *prng, n int, depth int) {
	q := &qw{w}
	setRegistry(false)
	setHook(nil)
	widths := []string{"", "0", "1", "7", "12", "1000", "*"}
	precs := []string{"", ".0", ".1", ".5", ".*", "."}
	verbs := []rune("abcdefghijklmnopqrstuvwxyzABCDEFGHIJKLMNOPQRSTUVWXYZ")
	verbs = append(verbs, 'é', '☃', '‹', 0x1f6d1)
	operands := []interface{}{true, 42, int8(-5), uint(7), uint8(200), 3.25, float32(-1.5), "str", "é‹x", []byte("by"), 'x', uintptr(9), int64(-1 << 40), complex(1, 2)}
	count := 0
	for fs := 0; fs < 32; fs++ {
		var fl string
		for i, c := range "+-# 0" {
			if fs&(1<<i) != 0 {
				fl += string(c)
			}
		}
		for _, wd := range widths {
			for _, pr := range precs {
				for vi, verb := range verbs {
					count++
					// thin the product unless depth asks for all of it
					// (the common verbs with the common width/precision settings are never thinned out)
					common := strings.ContainsRune("vsdxq", verb) && (wd == "" || wd == "7") && (pr == "" || pr == ".1")
					if !common && depth < 4 && (count+int(rng.s%7))%(8>>uint(depth%4+0)) != 0 && vi%3 != int(rng.s%3) {
						continue
					}
					d := "%" + fl + wd + pr + string(verb)
					var extra []interface{}
					if wd == "*" {
						extra = append(extra, 9)
					}
					if pr == ".*" {
						extra = append(extra, 3)
					}
					for _, redactState := range []bool{false, true} {
						if verb == 'T' || verb == 'p' || verb == 'w' {
							continue
						}
						if redactState && verb >= 0x80 && !utf8.ValidRune(verb) {
							continue
						}
						var r1, r2 stateRec
						sprintf := func(f string, a ...interface{}) string {
							if redactState {
								return string(redact.Sprintf(f, a...))
							}
							return fmt.Sprintf(f, a...)
						}
						_ = sprintf(d, append(append([]interface{}{}, extra...), probeF{&r1})...)
						_ = sprintf(r1.reproduced, probeF{&r2})
						info := fmt.Sprintf("directive %q redactState=%v reproduced %q", d, redactState, r1.reproduced)
						same := r1.flags == r2.flags && r1.wid == r2.wid && r1.wok == r2.wok && r1.prec == r2.prec && r1.pok == r2.pok && r1.verb == r2.verb && r1.verb == verb
						q.truth("C14", "MakeFormat does not re-create the active flags, width, precision and verb", same, info)
						if redactState {
							// the same State seen from a SafeFormat method after it has used the printer's writers
							var r3 stateRec
							_ = sprintf(d, append(append([]interface{}{}, extra...), sfNumThenProbe{&r3})...)
							same3 := r1.flags == r3.flags && r1.wid == r3.wid && r1.wok == r3.wok && r1.prec == r3.prec && r1.pok == r3.pok && r3.reproduced == r1.reproduced
							q.truth("C14", "the directive seen by a SafeFormat method changes after it has called SafeInt/SafeUint/SafeFloat/SafeString", same3, info+fmt.Sprintf(" after the writers: %q", r3.reproduced))
						}
						bare := fl == "" && wd == "" && pr == "" && verb == 'v'
						q.truth("C14", "MakeFormat reports the bare %v case wrongly", r1.justV == bare, info)
						fmt.Fprintf(w, "(mkfmt %s %s %s %s %s %s %d %s %d %d %s %s)\n", b01(r1.flags[0]), b01(r1.flags[1]), b01(r1.flags[2]), b01(r1.flags[3]), b01(r1.flags[4]),
							b01(r1.wok), r1.wid, b01(r1.pok), r1.prec, r1.verb, b01(r1.justV), hxs(r1.reproduced))
					}
					// wrappers and forwarders print like the operand itself
					if verb == 'T' || verb == 'p' || verb == 'w' {
						continue
					}
					args := func(v interface{}) []interface{} { return append(append([]interface{}{}, extra...), v) }
					// the common verbs with the common width/precision settings: every operand;
					// the rest of the product: one operand per directive
					xs := []interface{}{operands[(count+vi)%len(operands)]}
					if strings.ContainsRune("vsdxq", verb) && (wd == "" || wd == "7") && (pr == "" || pr == ".1") {
						xs = operands
					}
					for _, x := range xs {
						want := fmt.Sprintf(d, args(x)...)
						info := fmt.Sprintf("directive %q operand %T %v", d, x, x)
						q.eq("C14", "fmt.Sprintf(d, Safe(x)) differs from fmt.Sprintf(d, x)", lit(fmt.Sprintf(d, args(redact.Safe(x))...)), lit(want), info)
						q.eq("C14", "fmt.Sprintf(d, Unsafe(x)) differs from fmt.Sprintf(d, x)", lit(fmt.Sprintf(d, args(redact.Unsafe(x))...)), lit(want), info)
						q.eq("C14", "a Formatter forwarding with MakeFormat differs from a direct call (fmt)", lit(fmt.Sprintf(d, args(fwd{x})...)), lit(want), info)
						if !(strings.Contains(fl, "0") && strings.Contains(fl, "-")) && utf8.ValidRune(verb) {
							got := string(redact.Sprintf(d, args(fwd{x})...))
							q.eq("C14", "a Formatter forwarding with MakeFormat differs from a direct call (redact printer)", fn("strip", lit(got)), fn("escm", lit(want)), info)
						}
						if utf8.ValidRune(verb) {
							// the same against redact's own direct rendering: every flag subset, '-' with '0' included
							got := string(redact.Sprintf(d, args(fwd{x})...))
							direct := string(redact.Sprintf(d, args(x)...))
							q.eq("C14", "under redact's printer a Formatter forwarding with MakeFormat differs from the direct call", fn("strip", lit(got)), fn("strip", lit(direct)), info)
							// nested in Unsafe / Safe under redact's printer: the wrapper's content is printed with the active directive
							if !(strings.Contains(fl, "0") && strings.Contains(fl, "-")) {
								gotU := string(redact.Sprintf(d, args(redact.Unsafe(fwd{x}))...))
								q.eq("C14", "Unsafe(forwarding Formatter) under redact's printer differs from fmt's direct call", fn("strip", lit(gotU)), fn("escm", lit(want)), info)
							}
						}
					}
					// the State a Formatter sees does not depend on the sibling printed before it in the
					// same container (flags switched off for one element must be switched on again)
					if utf8.ValidRune(verb) && wd != "*" && pr != ".*" {
						sib := siblings[(count+vi)%len(siblings)]
						for _, redactState := range []bool{false, true} {
							var ra, rb stateRec
							sprintf := func(f string, a ...interface{}) string {
								if redactState {
									return string(redact.Sprintf(f, a...))
								}
								return fmt.Sprintf(f, a...)
							}
							_ = sprintf(d, []interface{}{sib, probeF{&ra}})
							_ = sprintf(d, []interface{}{probeF{&rb}})
							same := ra.flags == rb.flags && ra.wid == rb.wid && ra.wok == rb.wok && ra.prec == rb.prec && ra.pok == rb.pok && ra.verb == rb.verb
							q.truth("C14", "the fmt.State handed to a Formatter depends on the element printed before it", same,
								fmt.Sprintf("directive %q sibling %T %v redactState=%v: flags %v vs %v", d, sib, sib, redactState, ra.flags, rb.flags))
						}
						if count%4 == 0 && wd != "1000" {
							// the same as a printer case for the model (paddings of a thousand bytes only cost time there)
							c := &pcase{entry: "sprintf", format: d, args: []*Val{{K: "sl", GoT: "[]interface{}", Elems: []*Val{
								siblingVals[(count+vi)%len(siblingVals)](),
								{K: "usr", UK: 2, ID: newID(), Script: []*Act{{K: "dump"}, {K: "ret", S: "r"}}}}}}}
							fmt.Fprintln(w, runPCase(c))
							setRegistry(false)
							setHook(nil)
						}
					}
				}
			}
		}
	}
}

// ------------------------------------------------------------------------
// C15: HelperForErrorf

type plainErr struct{ s string }

func (e *plainErr) Error() string { return e.s }

type wrapErr struct {
	s     string
	inner error
}

func (e *wrapErr) Error() string { return e.s + ": " + e.inner.Error() }
func (e *wrapErr) Unwrap() error { return e.inner }

type panicErr struct{ s string }

func (e *panicErr) Error() string { panic(e.s) }

func genQ15(w *bufio.Writer, rng *prng, n int, depth int) {
	q := &qw{w}
	setRegistry(false)
	setHook(nil)
	// no operands: the format still goes through the directive parser
	for _, f := range []string{"", "plain", "a\nb", "100%%", "%w", "%d", "%+8w", "%[1]w", "%[2]d x", "trailing %", "%!", "‹%%›", "%w %w", "%v%", "%é"} {
		var txt, ref redact.RedactableString
		var err error
		p1, _ := try(func() { txt, err = redact.HelperForErrorf(f) })
		p2, _ := try(func() { ref = redact.Sprintf(f) })
		info := fmt.Sprintf("format %q without operands", f)
		q.truth("C11", "HelperForErrorf panicked", !p1 && !p2, info)
		if p1 || p2 {
			continue
		}
		q.truth("C15", "returned error is not the one the property prescribes", err == nil, info)
		q.eq("C15", "text differs from Sprintf's (with the correct %w read as %v)", lit(string(txt)), lit(string(ref)), info)
		fe := fmt.Errorf(f)
		q.eq("C15", "message differs from fmt.Errorf's", fn("strip", lit(string(txt))), fn("escm", lit(fe.Error())), info)
	}
	// %w inside a nested Print/Printf made by an operand's SafeFormat method (or the callback of a
	// nested Sprintfn-style printer): never a correct use - a bad verb there, nothing captured, text
	// as Sprintf's
	for _, outer := range []string{"%v", "%s", "%+v", "%10v", "n: %v.", "%w | %v", "%v | %w"} {
		for _, inner := range []string{"nested: %w", "%w", "%+w %v", "%v %w"} {
			e1, e2 := &plainErr{"outer"}, &plainErr{"inner"}
			sf := sfFunc(func(p redact.SafePrinter) { p.Printf(inner, e2, e2) })
			sf1 := sfFunc(func(p redact.SafePrinter) { p.Printf(strings.Fields(inner)[0]+"|", e2) })
			for si, op := range []interface{}{sf, sf1} {
				var args []interface{}
				var wantErr error
				fv := outer
				switch {
				case strings.HasPrefix(outer, "%w"):
					args, wantErr, fv = []interface{}{e1, op}, e1, "%v | %v"
				case strings.HasSuffix(outer, "%w"):
					args, wantErr, fv = []interface{}{op, e1}, e1, "%v | %v"
				default:
					args = []interface{}{op}
				}
				var txt, ref redact.RedactableString
				var err error
				p1, _ := try(func() { txt, err = redact.HelperForErrorf(outer, args...) })
				p2, _ := try(func() { ref = redact.Sprintf(fv, args...) })
				info := fmt.Sprintf("format %q, operand %d with SafeFormat calling Printf(%q, err...)", outer, si, inner)
				q.truth("C11", "HelperForErrorf panicked", !p1 && !p2, info)
				if p1 || p2 {
					continue
				}
				q.truth("C15", "returned error is not the one the property prescribes (nested %w)", sameErr(err, wantErr), info)
				q.eq("C15", "text differs from Sprintf's (with the correct %w read as %v)", lit(string(txt)), lit(string(ref)), info)
			}
		}
	}
	for i := 0; i < n; i++ {
		useHook := rng.coin(1, 3)
		if useHook {
			setHook([]*Act{{K: "ss", S: "H<"}, {K: "us", S: "err"}, {K: "ss", S: ">"}})
		} else {
			setHook(nil)
		}
		// operands and directives; every directive consumes the next operand
		nd := 1 + rng.intn(4)
		shared := &plainErr{"shared"}
		var f, fv strings.Builder // fv: the same format with the captured %w replaced by %v
		var args []interface{}
		var isW []bool
		var descr []string
		for j := 0; j < nd; j++ {
			l := rng.pick([]string{"", "a ", ": ", "‹", "\n"})
			f.WriteString(l)
			fv.WriteString(l)
			flags := ""
			if rng.coin(1, 4) {
				flags = rng.pick([]string{"+", "-", " ", "8", "-12", ".3", "+10", "#", "#+"})
			}
			var a interface{}
			switch rng.intn(12) {
			case 8:
				a = shared // the same error value, possibly under several directives of the call
			case 11:
				a = (*plainErr)(nil) // a typed nil pointer is still an error value (its Error method panics on it: <nil>)
			case 9:
				a = &panicErr{"boom‹"} // its Error method panics: reported in place, under the verb v
			case 10:
				if rng.coin(1, 2) {
					a = redact.Unsafe(shared)
				} else {
					a = redact.Safe(&panicErr{"pb"})
				}
			case 0:
				a = &plainErr{"e‹" + fmt.Sprint(j)}
			case 1:
				a = &wrapErr{"w", &plainErr{"in\nner"}}
			case 2:
				a = redact.Safe(&plainErr{"safe-wrapped"})
			case 3:
				a = redact.Unsafe(&plainErr{"unsafe-wrapped"})
			case 4:
				a = nil
			case 5:
				a = 42
			case 6:
				a = "str"
			default:
				a = struct{ A int }{1}
			}
			args = append(args, a)
			descr = append(descr, fmt.Sprintf("%T", a))
			if rng.coin(1, 2) {
				f.WriteString("%" + flags + "w")
				isW = append(isW, true)
			} else {
				f.WriteString("%" + flags + "v")
				isW = append(isW, false)
			}
		}
		format := f.String()
		nW := 0
		wi := -1
		for j, b := range isW {
			if b {
				nW++
				wi = j
			}
		}
		holdsErr := func(a interface{}) error {
			switch t := a.(type) {
			case error:
				return t
			case interface{ GetValue() interface{} }:
				if e, ok := t.GetValue().(error); ok {
					return e
				}
			}
			return nil
		}
		var wantErr error
		if nW == 1 {
			wantErr = holdsErr(args[wi])
		}
		var txt redact.RedactableString
		var gotErr error
		p, _ := try(func() { txt, gotErr = redact.HelperForErrorf(format, args...) })
		info := fmt.Sprintf("format %q operands %v hook=%v", format, descr, useHook)
		q.truth("C11", "HelperForErrorf panicked", !p, info)
		if p {
			continue
		}
		msg := "returned error is not the one the property prescribes"
		if gotErr != wantErr && wantErr == nil && nW >= 2 {
			// narrow class of the recorded finding: the error was captured by one %w and every
			// other %w has a nil or basic-kind operand (reported as a bad verb without going
			// through the method dispatch that cancels the capture)
			inClass := true
			capturing := -1 // the first %w whose operand holds the returned error
			for j, b := range isW {
				if b && capturing < 0 && holdsErr(args[j]) == gotErr {
					capturing = j
				}
			}
			for j, b := range isW {
				if !b || j == capturing {
					continue
				}
				switch args[j].(type) {
				case nil, int, string:
				default:
					inClass = false
				}
			}
			if inClass {
				msg += " [a further %w with a nil or basic-kind operand does not cancel the capture]"
			}
		}
		q.truth("C15", msg, gotErr == wantErr, info+fmt.Sprintf(" got %v want %v", gotErr, wantErr))
		// the text: %w -> %v for the correctly used one; any other %w is what Sprintf prints for %w (bad verb)
		var ref strings.Builder
		pos := 0
		idx := 0
		for pos < len(format) {
			if format[pos] == '%' {
				end := pos + 1
				for end < len(format) && strings.IndexByte("+-# 0123456789.", format[end]) >= 0 {
					end++
				}
				d := format[pos : end+1]
				if isW[idx] && nW == 1 && wantErr != nil {
					d = d[:len(d)-1] + "v"
				}
				ref.WriteString(d)
				idx++
				pos = end + 1
				continue
			}
			ref.WriteByte(format[pos])
			pos++
		}
		var sref redact.RedactableString
		_, _ = try(func() { sref = redact.Sprintf(ref.String(), args...) })
		sharpW := false // a %w directive carrying the '#' flag
		flagW := false  // a %w directive carrying '+' or '#'
		{
			pos, idx := 0, 0
			for pos < len(format) {
				if format[pos] == '%' {
					end := pos + 1
					for end < len(format) && strings.IndexByte("+-# 0123456789.", format[end]) >= 0 {
						end++
					}
					if isW[idx] && strings.Contains(format[pos:end], "#") {
						sharpW = true
					}
					if isW[idx] && strings.ContainsAny(format[pos:end], "#+") {
						flagW = true
					}
					idx++
					pos = end + 1
					continue
				}
				pos++
			}
		}
		if nW <= 1 {
			m := "text differs from Sprintf's (with the correct %w read as %v)"
			if sharpW && wantErr != nil {
				m += " [%#w prints the error's text where %#v prints its Go-syntax form]"
			}
			q.eq("C15", m, lit(string(txt)), lit(string(sref)), info)
		} else {
			q.pred("C15", "text well-formed", "redactable", lit(string(txt)), info)
		}
		// against fmt.Errorf for at most one %w (no hook: plain text)
		if nW <= 1 && !useHook {
			fe := fmt.Errorf(format, args...)
			okfmt := true
			for _, a := range args {
				if _, isWrap := a.(interface{ GetValue() interface{} }); isWrap {
					okfmt = false // fmt does not look inside Safe/Unsafe for %w
				}
			}
			if okfmt {
				// %w with a + or # flag: the standard library changed how it sets these flags up
				// for w after the fork was taken (Go 1.20); not compared.
				if !flagW {
					q.eq("C15", "message differs from fmt.Errorf's", fn("strip", lit(string(txt))), fn("escm", lit(fe.Error())), info)
				}
				q.truth("C15", "returned error differs from Unwrap() of fmt.Errorf", errors.Unwrap(fe) == gotErr, info)
			}
		}
	}
	setHook(nil)
}

// ------------------------------------------------------------------------
// C17: the registered error hook

type hookCall struct {
	err  error
	verb rune
}

var hookLog []hookCall

func recordingHook(err error, p redact.SafePrinter, verb rune) {
	hookLog = append(hookLog, hookCall{err, verb})
	p.SafeString("HOOK[")
	p.UnsafeString("u")
	p.SafeString("]")
	if pe, ok := err.(*plainErr); ok && pe != nil && pe.s == "panic-in-hook" {
		panic("hook-boom")
	}
}

type errStringer struct{ s string }

func (e errStringer) Error() string  { return e.s }
func (e errStringer) String() string { return "STRINGER" }

type errFormatter struct{ s string }

func (e errFormatter) Error() string                 { return e.s }
func (e errFormatter) Format(s fmt.State, verb rune) { _, _ = s.Write([]byte("FORMATTER")) }

type errSafeFormatter struct{ s string }

func (e errSafeFormatter) Error() string                              { return e.s }
func (e errSafeFormatter) SafeFormat(p redact.SafePrinter, verb rune) { p.SafeString("OWN-SAFEFORMAT") }

type errSafeMessager struct{ s string }

func (e errSafeMessager) Error() string       { return e.s }
func (e errSafeMessager) SafeMessage() string { return "OWN-SAFEMESSAGE" }

type holder struct {
	E error
	I interface{}
}

// errors whose underlying type is a byte slice / byte array (string verbs must not print them as bytes)
type bytesErr []byte

func (e bytesErr) Error() string { return "bytes error (" + string(e) + ")" }

type arrErr [2]byte

func (e arrErr) Error() string { return "array error (" + string(e[:]) + ")" }

// identity of error values, also for error types that are not comparable (byte slices)
func sameErr(a, b error) (same bool) {
	defer func() {
		if recover() != nil {
			same = reflect.DeepEqual(a, b)
		}
	}()
	return a == b
}

func genQ17(w *bufio.Writer, rng *prng, n int, depth int) {
	q := &qw{w}
	setRegistry(false)
	mk := []func() error{
		func() error { return &plainErr{"plain‹"} },
		func() error { return &wrapErr{"w", &plainErr{"inner"}} },
		func() error { return errStringer{"es"} },
		func() error { return errFormatter{"ef"} },
		func() error { return (*plainErr)(nil) },
		func() error { return &plainErr{"panic-in-hook"} },
		func() error { return bytesErr("ab") },
		func() error { return arrErr{'c', 'd'} },
	}
	verbs := []string{"%v", "%s", "%+v", "%d", "%x", "%q", "%#v", "%10v", "%-8s"}
	const hookText = "HOOK[‹u›]"
	for i := 0; i < n; i++ {
		e := mk[rng.intn(len(mk))]()
		d := verbs[rng.intn(len(verbs))]
		for _, hookOn := range []bool{true, false} {
			redact.VerifClearErrorFn()
			if hookOn {
				redact.RegisterRedactErrorFn(recordingHook)
			}
			info := fmt.Sprintf("error %T %q directive %s hook=%v", e, fmt.Sprint(func() (s string) { defer func() { recover() }(); return e.Error() }()), d, hookOn)
			isPanic := false
			if pe, ok := e.(*plainErr); ok && pe != nil && pe.s == "panic-in-hook" {
				isPanic = true
			}
			positions := []struct {
				name string
				f    func() string
				pre  string
				post string
			}{
				{"top level", func() string { return string(redact.Sprintf("<"+d+">", e)) }, "<", ">"},
				{"in []interface{}", func() string { return string(redact.Sprintf("<"+d+">", []interface{}{e})) }, "<[", "]>"},
				{"in map value", func() string { return string(redact.Sprintf("<"+d+">", map[int]interface{}{1: e})) }, "", ""},
				{"in exported field", func() string { return string(redact.Sprintf("<"+d+">", holder{E: e})) }, "", ""},
				{"in interface field of pointer to struct", func() string { return string(redact.Sprintf("<"+d+">", &holder{I: e})) }, "", ""},
				{"in []error", func() string { return string(redact.Sprintf("<"+d+">", []error{e})) }, "<[", "]>"},
				{"surplus operand", func() string { return string(redact.Sprintf("<"+d+">", 1, e)) }, "", ""},
			}
			for _, pos := range positions {
				hookLog = nil
				var out string
				p, _ := try(func() { out = pos.f() })
				q.truth("C11", "print call panicked ("+pos.name+")", !p, info)
				if p {
					continue
				}
				q.pred("C01", "well-formed", "redactable", lit(out), info)
				if hookOn {
					called := len(hookLog) == 1 && sameErr(hookLog[0].err, e)
					q.truth("C17", "hook not called exactly once with the error ("+pos.name+")", called, info+fmt.Sprintf(" log=%v", hookLog))
					if called {
						wantVerb := rune(d[len(d)-1])
						if pos.name == "surplus operand" {
							wantVerb = 'v' // the EXTRA report prints the left-over operands under %v
						}
						q.truth("C17", "hook received a verb other than the active one ("+pos.name+")", hookLog[0].verb == wantVerb, info)
					}
					if !isPanic && d != "%#v" && pos.pre != "" {
						q.eq("C17", "operand not rendered solely by the hook ("+pos.name+")", lit(out), lit(pos.pre+hookText+pos.post), info)
					}
					if !isPanic && pos.pre == "" {
						q.truth("C17", "hook text missing ("+pos.name+")", strings.Contains(out, hookText), info+" out="+out)
						q.truth("C17", "error's own text printed besides the hook's ("+pos.name+")", !strings.Contains(out, "FORMATTER") && !strings.Contains(out, "STRINGER") && !strings.Contains(out, "inner"), info+" out="+out)
					}
					if isPanic {
						q.truth("C17", "hook panic not reported in place ("+pos.name+")", strings.Contains(out, "(PANIC=") && strings.Contains(out, "hook-boom"), info+" out="+out)
					}
				} else {
					q.truth("C17", "hook called although none is installed", len(hookLog) == 0, info)
				}
			}
			// under Unsafe the hook is bypassed and the plain text is fully enveloped
			hookLog = nil
			var out string
			p, _ := try(func() { out = string(redact.Sprintf(d, redact.Unsafe(e))) })
			if !p {
				q.truth("C17", "hook called under Unsafe()", len(hookLog) == 0, info)
				q.pred("C17", "Unsafe(err): text outside envelopes", "delenvlf", lit(out), info)
				var fout string
				fp, _ := try(func() { fout = fmt.Sprintf(d, e) })
				if !fp {
					q.eq("C17", "Unsafe(err): not the error's plain text", fn("strip", lit(out)), fn("escm", lit(fout)), info)
				}
			}
			// ... also when Unsafe(err) sits inside a container (reached through method dispatch)
			if !isPanic {
				for ci, mkc := range []func() interface{}{
					func() interface{} { return []interface{}{redact.Unsafe(e)} },
					func() interface{} { return map[int]interface{}{1: redact.Unsafe(e)} },
					func() interface{} { return holder{I: redact.Unsafe(e)} },
					func() interface{} { return []interface{}{redact.Safe(1), redact.Unsafe(e), redact.Unsafe(e)} },
				} {
					hookLog = nil
					var out string
					p, _ := try(func() { out = string(redact.Sprintf(d, mkc())) })
					if !p {
						q.truth("C17", fmt.Sprintf("hook called for Unsafe(err) inside a container (%d)", ci), len(hookLog) == 0 && !strings.Contains(out, "HOOK["), info+" out="+out)
					}
				}
			}
			// under Safe() the hook still renders the error (Unsafe() is the only exception)
			if hookOn && !isPanic {
				for ci, mkc := range []func() interface{}{
					func() interface{} { return redact.Safe(e) },
					func() interface{} { return []interface{}{redact.Safe(e)} },
					func() interface{} { return redact.Safe([]interface{}{e}) },
					func() interface{} { return redact.Safe(holder{E: e}) },
					func() interface{} { return holder{I: redact.Safe(e)} },
				} {
					hookLog = nil
					var out string
					p, _ := try(func() { out = string(redact.Sprintf(d, mkc())) })
					if !p {
						q.truth("C17", fmt.Sprintf("hook not called exactly once for an error under Safe() (%d)", ci), len(hookLog) == 1 && sameErr(hookLog[0].err, e) && strings.Contains(out, "HOOK["), info+fmt.Sprintf(" out=%s log=%v", out, hookLog))
					}
				}
			}
			// errors that classify themselves are not handed to the hook
			for _, own := range []error{errSafeFormatter{"x"}, errSafeMessager{"y"}} {
				hookLog = nil
				o := string(redact.Sprintf("%v", own))
				q.truth("C17", "hook called for a SafeFormatter/SafeMessager error", len(hookLog) == 0 && strings.HasPrefix(o, "OWN-"), info+" "+o)
			}
			// %w through HelperForErrorf: the hook sees 'v'
			if hookOn && !isPanic {
				hookLog = nil
				s, got := redact.HelperForErrorf("wrap: %w", e)
				q.truth("C17", "%w operand: hook not called once with verb 'v'", len(hookLog) == 1 && hookLog[0].verb == 'v' && sameErr(got, e), info+fmt.Sprintf(" log=%v", hookLog))
				q.eq("C17", "%w operand not rendered solely by the hook", lit(string(s)), lit("wrap: "+hookText), info)
				// a %w directive carrying flags, a width or an explicit argument index is still a %w
				for _, wf := range []struct {
					f    string
					args []interface{}
				}{{"wrap: %+w", []interface{}{e}}, {"%-12w|", []interface{}{e}}, {"%[1]w", []interface{}{e}}, {"%[2]w|%[1]v", []interface{}{5, e}}, {"% w", []interface{}{e}}} {
					hookLog = nil
					var got2 error
					p, _ := try(func() { _, got2 = redact.HelperForErrorf(wf.f, wf.args...) })
					if !p {
						q.truth("C17", "%w with flags/width/index: hook not called once with verb 'v' for the operand", len(hookLog) == 1 && hookLog[0].verb == 'v' && sameErr(hookLog[0].err, e) && sameErr(got2, e), info+fmt.Sprintf(" format=%q log=%v", wf.f, hookLog))
					}
				}
			}
		}
	}
	redact.VerifClearErrorFn()
	// model correspondence with scripted hooks
	for i := 0; i < n; i++ {
		g := &vgen{rng: rng, hostile: true}
		c := &pcase{useHook: true, hook: g.script(1), entry: "sprintf"}
		ev := g.user(depth, []int{1, 6, 7, 8})
		var star []*Val
		d := g.directive(ev, &star)
		if len(star) > 0 {
			d = "%v"
		}
		holderV := ev
		switch rng.intn(4) {
		case 0:
			holderV = &Val{K: "sl", GoT: "[]interface{}", Elems: []*Val{ev}}
		case 1:
			holderV = &Val{K: "unsafe", Elems: []*Val{ev}}
		case 2:
			holderV = &Val{K: "st", GoT: "St3", Elems: []*Val{{K: "i", GoT: "int", I: 1}, {K: "s", GoT: "string", S: "y"}, {K: "nil"}, ev}}
		}
		c.format = "e=" + d
		c.args = []*Val{holderV}
		if rng.coin(1, 4) {
			c.entry = "errorf"
			c.format = "e=%w"
			c.args = []*Val{ev}
		}
		fmt.Fprintln(w, runPCase(c))
	}
	setHook(nil)
}

// ------------------------------------------------------------------------
// C01 / C03 on the printer: hostile payloads everywhere (model correspondence + predicates)

func genQ01(w *bufio.Writer, rng *prng, n int, depth int) {
	genPrinterRandom(w, rng, n, depth, true)
	q := &qw{w}
	setRegistry(false)
	setHook(nil)
	// a panic that unwinds through a nested Print/Printf (the report of the first panic panics too)
	// after the nested printer has continued the enclosing envelope
	for _, pre := range []string{"", "a", "ab\n", "‹"} {
		for _, preSafe := range []bool{false, true} {
			for fi, first := range []interface{}{"b", 12, redact.Safe("s"), strings.Repeat("long", 30), "x\ny", redact.RedactableString("‹r›")} {
				for nested := 0; nested < 2; nested++ {
					pre, preSafe, first, nested := pre, preSafe, first, nested
					sf := sfFunc(func(p redact.SafePrinter) {
						if pre != "" {
							if preSafe {
								p.SafeString(redact.SafeString(pre))
							} else {
								p.UnsafeString(pre)
							}
						}
						bad := anyStringer{func() string { panic(anyStringer{func() string { panic("inner") }}) }}
						if nested == 0 {
							p.Printf("%v %v", first, bad)
						} else {
							p.Print(first, bad)
						}
					})
					for _, outer := range []string{"x=%v.", "%v", "%v %s", "%s%v"} {
						var out string
						pn, _ := try(func() { out = string(redact.Sprintf(outer, sf, "tail")) })
						info := fmt.Sprintf("SafeFormat writes %q (safe=%v) then nested call %d with operand %d and a doubly panicking Stringer, under %q: %q", pre, preSafe, nested, fi, outer, out)
						q.truth("C11", "a contained panic escaped", !pn, info)
						if !pn {
							q.pred("C01", "output after a panic unwinding through a nested printer is not well-formed", "redactable", lit(out), info)
							q.pred("C03", "output after a panic unwinding through a nested printer is not line-safe", "linesafe", lit(out), info)
						}
					}
				}
			}
		}
	}
	// Join and EscapeBytes results
	for i := 0; i < n/4+1; i++ {
		g := &vgen{rng: rng, hostile: true}
		rs := []redact.RedactableString{redact.RedactableString(libRedactable(g, 1)), redact.Sprint(g.str()), redact.Sprint(g.str(), "\n", g.str())}
		j := string(redact.Join(redact.Sprint(g.str()), rs))
		q.pred("C01", "Join result well-formed", "redactable", lit(j), hxs(j))
		q.pred("C03", "Join result line-safe", "linesafe", lit(j), hxs(j))
		eb := string(redact.EscapeBytes([]byte(g.str() + g.str() + "\n" + g.str())))
		q.pred("C01", "EscapeBytes result well-formed", "redactable", lit(eb), hxs(eb))
		q.pred("C03", "EscapeBytes result line-safe", "linesafe", lit(eb), hxs(eb))
		// per line redaction = whole redaction
		lines := strings.Split(j, "\n")
		var parts []string
		for li, l := range lines {
			if li > 0 {
				parts = append(parts, lit("\n"))
			}
			parts = append(parts, fn("redact", lit(l)))
			q.pred("C03", "a line of the output is not well-formed alone", "wf", lit(l), hxs(j))
		}
		q.eq("C03", "redacting line by line differs from redacting the whole", fn("redact", lit(j)), cat(parts...), hxs(j))
	}
}
