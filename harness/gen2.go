package main

import "bufio"

func runGen2(name string, w *bufio.Writer, rng *prng, n, depth int) bool {
	switch name {
	case "buffer":
		genBuffer(w, rng, depth, n, false)
	case "buffer-invalid-runes":
		genBuffer(w, rng, depth, n, true)
	default:
		return false
	}
	return true
}
