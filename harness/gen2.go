package main

import "bufio"

func runGen2(name string, w *bufio.Writer, rng *prng, n, depth int) bool {
	switch name {
	case "buffer":
		genBuffer(w, rng, depth, n, false)
	case "buffer-invalid-runes":
		genBuffer(w, rng, depth, n, true)
	case "printer":
		genPrinterRandom(w, rng, n, depth, true)
	case "printer-clean":
		genPrinterRandom(w, rng, n, depth, false)
	case "grid":
		genGrid(w, rng, curSeed, depth)
	case "q01":
		genQ01(w, rng, n, depth)
	case "q02":
		genQ02(w, rng, n, depth)
	case "q04":
		genQ04(w, rng, n, depth)
	case "q05":
		genQ05(w, rng, n, depth)
	case "q06":
		genQ06(w, rng, n, depth)
	case "q08":
		genQ08(w, rng, n, depth)
	case "q09":
		genQ09(w, rng, n, depth)
	case "q11":
		genQ11(w, rng, n, depth)
	case "q12":
		genQ12(w, rng, n, depth, false)
	case "q12-baseline":
		genQ12(w, rng, n, depth, true)
	case "q14":
		genQ14(w, rng, n, depth)
	case "q15":
		genQ15(w, rng, n, depth)
	case "q16":
		genQ16(w, rng, n, depth)
	case "q17":
		genQ17(w, rng, n, depth)
	default:
		return false
	}
	return true
}
