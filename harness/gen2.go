package main

import "bufio"

func runGen2(name string, w *bufio.Writer, rng *prng, n, depth int) bool {
	switch name {
	case "buffer":
		genBuffer(w, rng, depth, n, false)
	case "buffer-invalid-runes":
		genBuffer(w, rng, depth, n, true)
	case "printer":
		genPrinterRandom(w, rng, n, depth, true)
	case "printer-clean":
		genPrinterRandom(w, rng, n, depth, false)
	default:
		return false
	}
	return true
}
