package main

import (
	"bufio"
	"errors"
	"fmt"
	"math"
	"reflect"
	"sort"
	"strconv"
	"strings"
	"unicode/utf8"

	"github.com/cockroachdb/redact"
	i "github.com/cockroachdb/redact/interfaces"
)

// ---------- a printer case ----------
type pcase struct {
	entry   string // sprint sprintf errorf sprintfn builder fprint fprintf
	format  string
	args    []*Val
	acts    []*Act
	hook    []*Act
	useHook bool
	reg     bool
}

var nextID int

func newID() int { nextID++; return nextID }

// ---------- value generator ----------
type vgen struct {
	rng       *prng
	hostile   bool // payloads with markers / partial markers
	noUsers   bool
	noFloats  bool
	validUtf8 bool
	fmtCompat bool // only values the standard fmt package prints the same way (C04)
	noDump    bool
}

var cleanStrings = []string{"", "a", "hello", "x y", "é", "☃", "日本", "0", "-1", "a\nb", "\n", "tab\there", "q\"uote", "back`tick", "%d", "nº", "menú", "x⁺", "a\r\nb", "\r", "a‸b", "※"}
var hostileStrings = []string{"‹", "›", "‹a›", "a‹b", "›x‹", "×", "‹×›", "\xe2", "\xe2\x80", "\x80\xb9", "a\xe2", "\xe2\x80\xb9\n", "\n‹\n", "a\n\n›b", "\xff", "\xc3", "?‹?"}

func (g *vgen) str() string {
	r := g.rng
	if g.hostile && r.coin(1, 2) {
		s := r.pick(hostileStrings)
		if r.coin(1, 3) {
			s += r.pick(cleanStrings)
		}
		if g.validUtf8 && !utf8.ValidString(s) {
			return r.pick(cleanStrings)
		}
		return s
	}
	return r.pick(cleanStrings)
}

var intVals = []int64{0, 1, -1, 7, 42, -1234, 255, 65, 0x2039, 0x203a, 1114112, math.MaxInt64, math.MinInt64, 1000001, -5, 0xd800, 0xdfff, 0x10ffff, 0xba, 0xfffd}
var floatVals = []float64{0, 1, -1, 1.5, -2.25, 3.14159, 1e21, 1e-7, 100, 123456789, math.Inf(1), math.Inf(-1), math.NaN(), math.Copysign(0, -1), 0.1, 1.875, 30, 0.9375, 7.5, 255, 0.5, 1e6, 1e-320}

// half of the floats come from the table, half are short dyadic fractions (few hexadecimal mantissa
// digits, every digit value: the trailing-zero padding of %#x / %#g sees all of them)
func (g *vgen) float() float64 {
	r := g.rng
	if r.coin(1, 2) {
		return floatVals[r.intn(len(floatVals))]
	}
	f := float64(r.intn(4096)) / float64(uint64(1)<<uint(r.intn(9)))
	if r.coin(1, 4) {
		f = -f
	}
	return f
}

func (g *vgen) leaf() *Val {
	r := g.rng
	switch r.intn(16) {
	case 0:
		return &Val{K: "nil"}
	case 1:
		return &Val{K: "b", GoT: r.pick([]string{"bool", "bool", "MyBool"}), B: r.coin(1, 2)}
	case 2, 3, 4:
		t := r.pick([]string{"int", "int", "int", "int8", "int32", "int64", "MyInt", "SvInt", "RegInt", "SafeInt"})
		v := intVals[r.intn(len(intVals))]
		switch t {
		case "int8":
			v = int64(int8(v))
		case "int32":
			v = int64(int32(v))
		}
		return &Val{K: "i", GoT: t, I: v}
	case 5:
		t := r.pick([]string{"uint", "uint8", "uint16", "uint64", "MyUint", "SafeUint"})
		v := uint64(intVals[r.intn(len(intVals))])
		switch t {
		case "uint8":
			v = uint64(uint8(v))
		case "uint16", "MyUint":
			v = uint64(uint16(v))
		}
		return &Val{K: "u", GoT: t, U: v}
	case 6:
		if g.noFloats {
			return &Val{K: "i", GoT: "int", I: 3}
		}
		t := r.pick([]string{"float64", "float64", "float32", "MyFloat", "SafeFloat"})
		return &Val{K: "f", GoT: t, F: g.float()}
	case 7, 8, 9, 10:
		t := r.pick([]string{"string", "string", "string", "MyStr", "SvStr", "RegStr", "SafeString"})
		return &Val{K: "s", GoT: t, S: g.str()}
	case 11:
		v := &Val{K: "bs", GoT: r.pick([]string{"[]byte", "[]byte", "MyBytes", "[4]byte"}), S: g.str(), Nil: r.coin(1, 8)}
		if v.GoT == "[4]byte" {
			// a byte ARRAY (passed by value: not addressable): exactly four bytes
			b := append([]byte(v.S), 'p', 'a', 'd', '!')[:4]
			if g.validUtf8 && !utf8.Valid(b) {
				b = []byte("ab\ncd")[:4]
			}
			v.S, v.Nil = string(b), false
		}
		if v.Nil {
			v.S = ""
		}
		return v
	case 12:
		if g.fmtCompat {
			return &Val{K: "s", GoT: "string", S: g.str()}
		}
		return &Val{K: "rs", S: g.redactable()}
	case 13:
		if g.fmtCompat {
			return &Val{K: "b", GoT: "bool", B: true}
		}
		return &Val{K: "rb", S: g.redactable()}
	case 14:
		return &Val{K: "ptr", GoT: "*int", Nil: r.coin(1, 2), Elems: []*Val{{K: "i", GoT: "int", I: 5}}}
	default:
		return &Val{K: "s", GoT: "string", S: g.str()}
	}
}

// well-formed redactable strings (what the library itself produces)
var redactables = []string{"", "safe", "‹unsafe›", "a ‹b› c", "‹×›", "‹a›\n‹b›", "x‹?›", "‹a› ‹b›", "é‹é›", "‹a\xe2?›", "\n", "‹›"}

func (g *vgen) redactable() string {
	if g.rng.coin(1, 4) {
		// a fresh one from the library
		return string(redact.Sprint(g.str(), redact.Safe(g.str())))
	}
	return g.rng.pick(redactables)
}

func (g *vgen) val(depth int) *Val {
	r := g.rng
	if depth <= 0 {
		return g.leaf()
	}
	switch r.intn(20) {
	case 0, 1:
		n := r.intn(4)
		es := make([]*Val, n)
		for i := range es {
			es[i] = g.val(depth - 1)
		}
		return &Val{K: "sl", GoT: "[]interface{}", Elems: es, Nil: n == 0 && r.coin(1, 2)}
	case 2:
		n := r.intn(3)
		es := make([]*Val, n)
		for i := range es {
			es[i] = &Val{K: "i", GoT: "int", I: intVals[r.intn(len(intVals))]}
		}
		return &Val{K: "sl", GoT: "[]int", Elems: es}
	case 3:
		n := r.intn(3)
		es := make([]*Val, n)
		for i := range es {
			es[i] = &Val{K: "s", GoT: "string", S: g.str()}
		}
		return &Val{K: "sl", GoT: "[]string", Elems: es}
	case 4:
		return &Val{K: "ar", GoT: "[2]interface{}", Elems: []*Val{g.val(depth - 1), g.val(depth - 1)}}
	case 5:
		n := r.intn(3)
		m := &Val{K: "mp", GoT: "map[string]interface{}", Nil: n == 0 && r.coin(1, 2)}
		kt := "string"
		if r.coin(1, 3) {
			// keys of a named string type: plain, a SafeValue, registered
			kt = r.pick([]string{"MyStr", "SvStr", "RegStr"})
			m.GoT, m.Nil = "map["+kt+"]interface{}", false
		}
		for i := 0; i < n; i++ {
			m.Keys = append(m.Keys, &Val{K: "s", GoT: kt, S: g.str()})
			m.Elems = append(m.Elems, g.val(depth-1))
		}
		return m
	case 6:
		n := r.intn(3)
		m := &Val{K: "mp", GoT: "map[int]interface{}"}
		for i := 0; i < n; i++ {
			m.Keys = append(m.Keys, &Val{K: "i", GoT: "int", I: int64(r.intn(5)) - 1})
			m.Elems = append(m.Elems, g.val(depth-1))
		}
		return m
	case 7:
		return &Val{K: "st", GoT: "St2", Elems: []*Val{g.val(depth - 1), g.val(depth - 1)}}
	case 8:
		var e *Val = &Val{K: "nil"}
		if !g.noUsers && r.coin(1, 2) {
			e = g.user(depth-1, []int{1, 6, 7, 8}) // error kinds
		}
		return &Val{K: "st", GoT: "St3", Elems: []*Val{
			{K: "i", GoT: "int", I: intVals[r.intn(len(intVals))]},
			{K: "s", GoT: "string", S: g.str()},
			g.val(depth - 1), e}}
	case 9:
		if r.coin(1, 3) {
			// a struct type registered as a whole, by value or behind a pointer
			st := &Val{K: "st", GoT: "RegSt", Elems: []*Val{{K: "s", GoT: "string", S: g.str()}, {K: "i", GoT: "int", I: intVals[r.intn(len(intVals))]}}}
			if r.coin(1, 3) {
				return st
			}
			return &Val{K: "ptr", GoT: "*RegSt", Nil: r.coin(1, 6), Elems: []*Val{st}}
		}
		return &Val{K: "ptr", GoT: "*St2", Nil: r.coin(1, 4),
			Elems: []*Val{{K: "st", GoT: "St2", Elems: []*Val{g.val(depth - 1), g.val(depth - 1)}}}}
	case 10, 11:
		if g.fmtCompat {
			return g.val(depth - 1)
		}
		return &Val{K: "safe", Elems: []*Val{g.val(depth - 1)}}
	case 12, 13:
		if g.fmtCompat {
			return g.val(depth - 1)
		}
		return &Val{K: "unsafe", Elems: []*Val{g.val(depth - 1)}}
	case 14, 15, 16:
		if g.noUsers {
			return g.leaf()
		}
		return g.user(depth-1, nil)
	case 17:
		if g.noUsers || r.coin(1, 2) {
			return g.leaf()
		}
		// SafeValue fields rendered by a method, then unexported strings
		l := &Val{K: "usr", UK: 9, ID: newID(), Script: []*Act{{K: "ret", S: g.str()}}}
		if r.coin(1, 2) {
			return &Val{K: "st", GoT: "St4", Elems: []*Val{l, {K: "s", GoT: "string", S: g.str()}}}
		}
		return &Val{K: "st", GoT: "St5", Elems: []*Val{{K: "s", GoT: "string", S: g.str()}, l, {K: "s", GoT: "SvStr", S: g.str()}, {K: "s", GoT: "string", S: g.str()}}}
	default:
		return g.leaf()
	}
}

func (g *vgen) user(depth int, kinds []int) *Val {
	r := g.rng
	uk := r.intn(len(userKinds))
	if kinds != nil {
		uk = kinds[r.intn(len(kinds))]
	}
	if g.fmtCompat {
		for userKinds[uk].ifaces[0] || userKinds[uk].ifaces[1] {
			if kinds != nil {
				uk = kinds[r.intn(len(kinds))]
			} else {
				uk = r.intn(len(userKinds))
			}
		}
	}
	v := &Val{K: "usr", UK: uk, ID: newID()}
	switch r.intn(8) {
	case 0:
		v.PtrK = 1
	case 1:
		v.PtrK = 2
	}
	k := userKinds[uk]
	scripted := k.ifaces[0] || k.ifaces[3] // SafeFormatter or Formatter run action scripts
	if scripted {
		v.Script = g.script(depth)
		// string methods of the same value (error + Formatter...) need a ret
		v.Script = append(v.Script, &Act{K: "ret", S: g.str()})
	} else {
		if r.coin(1, 8) {
			v.Script = []*Act{g.panicAct(depth)}
		} else {
			v.Script = []*Act{{K: "ret", S: g.str()}}
		}
	}
	return v
}

func (g *vgen) panicPayload(depth int) *Val {
	r := g.rng
	switch r.intn(6) {
	case 0:
		return &Val{K: "i", GoT: "int", I: 42}
	case 1:
		if depth > 0 && !g.noUsers {
			return g.user(depth-1, []int{0, 1}) // Stringer / error payload (may itself panic)
		}
	case 2:
		if !g.noUsers {
			// a nil pointer whose String/Error method panics on the nil receiver: reported as <nil>
			v := g.user(0, []int{0, 1})
			v.PtrK = 2
			return v
		}
	}
	return &Val{K: "s", GoT: "string", S: g.str()}
}

// a panic action: a value payload, or a genuine runtime error carrying a number
func (g *vgen) panicAct(depth int) *Act {
	if g.rng.coin(1, 4) {
		return &Act{K: "panicrt", N: int64(3 + g.rng.intn(9000))}
	}
	return &Act{K: "panic", Args: []*Val{g.panicPayload(depth)}}
}

func (g *vgen) script(depth int) []*Act {
	r := g.rng
	n := 1 + r.intn(4)
	var acts []*Act
	for i := 0; i < n; i++ {
		acts = append(acts, g.action(depth))
	}
	return acts
}

var someRunes = []int64{'a', '\n', 0x2039, 0x203a, 0xd7, 0xe9, 0x1f6d1, 0xfffd, -1, 0xd800, 0x110000}
var someBytes = []int64{'a', '\n', ' ', 0xe2, 0x80, 0xb9, 0xba, '?'}

// with validUtf8 only bytes that are complete characters and runes that encode as themselves
func (g *vgen) byteVal() int64 {
	b := someBytes[g.rng.intn(len(someBytes))]
	if g.validUtf8 && b >= 0x80 {
		return 'a'
	}
	return b
}

func (g *vgen) runeVal() int64 {
	r := someRunes[g.rng.intn(len(someRunes))]
	if g.validUtf8 && !utf8.ValidRune(rune(r)) {
		return 0xe9
	}
	return r
}

func (g *vgen) action(depth int) *Act {
	r := g.rng
	if g.fmtCompat {
		// what a Formatter can do with a plain fmt.State
		switch r.intn(6) {
		case 0, 1:
			return &Act{K: "write", S: g.str()}
		case 2:
			return &Act{K: "wstr", S: g.str()}
		case 3:
			return &Act{K: "dump"}
		case 4:
			if r.coin(1, 3) {
				return g.panicAct(depth)
			}
		}
		return &Act{K: "write", S: g.str()}
	}
	if r.coin(1, 25) {
		return &Act{K: "wstr", S: g.str()}
	}
	switch r.intn(20) {
	case 0:
		return &Act{K: "write", S: g.str()}
	case 1, 2:
		return &Act{K: "ss", S: g.str()}
	case 3:
		return &Act{K: "si", N: intVals[r.intn(len(intVals))]}
	case 4:
		return &Act{K: "su", U: uint64(intVals[r.intn(len(intVals))])}
	case 5:
		if g.noFloats {
			return &Act{K: "si", N: 3}
		}
		return &Act{K: "sf", F: g.float()}
	case 6:
		return &Act{K: "sr", N: g.runeVal()}
	case 7:
		return &Act{K: "sb", N: g.byteVal()}
	case 8:
		return &Act{K: "sbs", S: g.str()}
	case 9, 10:
		return &Act{K: "us", S: g.str()}
	case 11:
		return &Act{K: "ub", N: g.byteVal()}
	case 12:
		return &Act{K: "ubs", S: g.str()}
	case 13:
		return &Act{K: "ur", N: g.runeVal()}
	case 14, 15:
		if depth > 0 {
			n := r.intn(3)
			a := &Act{K: "print"}
			for i := 0; i < n; i++ {
				a.Args = append(a.Args, g.val(depth-1))
			}
			return a
		}
		return &Act{K: "ss", S: g.str()}
	case 16, 17:
		if depth > 0 {
			args, f := g.formatFor(depth-1, r.intn(3))
			return &Act{K: "printf", S: f, Args: args}
		}
		if r.coin(1, 2) {
			// a format without operands (often without any directive)
			args, f := g.formatFor(0, 0)
			return &Act{K: "printf", S: f, Args: args}
		}
		return &Act{K: "us", S: g.str()}
	case 18:
		if g.noDump {
			return &Act{K: "us", S: g.str()}
		}
		return &Act{K: "dump"}
	default:
		if r.coin(1, 3) {
			return g.panicAct(depth)
		}
		return &Act{K: "ss", S: g.str()}
	}
}

// ---------- format generator ----------
// "º", "ú", "⁺" end in 0xBA, the last byte of the closing marker; "\x80\xba" is its two-byte tail
var litPieces = []string{"", "a", " ", "x=", "\n", "‹", "›", "\xe2", "\x80\xb9", "é", "%%", ":", "‹×›", "nº", "ú", "⁺", "\x80\xba", "\xba", "\r\n", "h\r\n", "‸", "※"}

func (g *vgen) literal() string {
	r := g.rng
	if !g.hostile {
		return r.pick([]string{"", "a", " ", "x=", "\n", ":", "é", "%%", "nº", "ú", "⁺", "\r\n"})
	}
	l := r.pick(litPieces)
	if g.validUtf8 && !utf8.ValidString(l) {
		return "›"
	}
	return l
}

func verbsFor(v *Val) string {
	switch v.K {
	case "b":
		return "tv"
	case "i", "u":
		return "vdboOxXcqU"
	case "f":
		return "vbgGxXfFeE"
	case "s", "bs":
		return "vsxXq"
	case "ptr":
		return "vp"
	}
	return "vs"
}

const allVerbs = "vdsxXqtbocUeEfFgGpTwz!é"

func (g *vgen) directive(v *Val, star *[]*Val) string {
	r := g.rng
	var sb strings.Builder
	sb.WriteByte('%')
	if r.coin(1, 3) {
		for _, c := range "+-# 0" {
			if r.coin(1, 4) {
				sb.WriteRune(c)
			}
		}
	}
	if r.coin(1, 4) {
		switch r.intn(4) {
		case 0, 1:
			if r.coin(1, 8) {
				sb.WriteString(strconv.Itoa(60 + r.intn(80))) // around the size of the integer scratch array
			} else {
				sb.WriteString(strconv.Itoa(r.intn(12)))
			}
		case 2:
			sb.WriteString("*")
			*star = append(*star, &Val{K: "i", GoT: "int", I: int64(r.intn(14)) - 3})
		case 3:
			sb.WriteString("*")
			lf := g.leaf() // possibly not an int: BADWIDTH
			if (lf.K == "i" && (lf.I > 300 || lf.I < -300) && lf.I < 1000000 && lf.I > -1000000) || (lf.K == "u" && lf.U > 300 && lf.U < 1000000) {
				lf = &Val{K: "i", GoT: "int", I: 17}
			}
			*star = append(*star, lf)
		}
	}
	if r.coin(1, 5) {
		sb.WriteByte('.')
		switch r.intn(4) {
		case 0, 1:
			if r.coin(1, 10) {
				sb.WriteString(strconv.Itoa(60 + r.intn(80)))
			} else {
				sb.WriteString(strconv.Itoa(r.intn(8)))
			}
		case 2:
			sb.WriteString("*")
			*star = append(*star, &Val{K: "i", GoT: "int", I: int64(r.intn(9)) - 2})
		}
	}
	var verb string
	if r.coin(5, 6) {
		vs := verbsFor(v)
		verb = string(vs[r.intn(len(vs))])
	} else {
		rs := []rune(allVerbs)
		verb = string(rs[r.intn(len(rs))])
	}
	sb.WriteString(verb)
	return sb.String()
}

// formatFor generates n operands and a format consuming them (mostly).
func (g *vgen) formatFor(depth, n int) ([]*Val, string) {
	r := g.rng
	var args []*Val
	var sb strings.Builder
	for i := 0; i < n; i++ {
		sb.WriteString(g.literal())
		v := g.val(depth)
		var star []*Val
		d := g.directive(v, &star)
		args = append(args, star...)
		args = append(args, v)
		sb.WriteString(d)
	}
	sb.WriteString(g.literal())
	f := sb.String()
	switch r.intn(16) {
	case 0:
		args = append(args, g.leaf()) // EXTRA
	case 1:
		if len(args) > 0 {
			args = args[:len(args)-1] // MISSING
		}
	case 2:
		f += "%" // NOVERB
	case 3:
		f = "%[2]v %[1]v " + f
	case 4:
		f += "%[9]d"
	case 5:
		// a width taken from the first operand; keep accepted widths small (a padding of tens of
		// thousands of bytes only costs time in the list-based model)
		big := false
		if len(args) > 0 {
			a0 := args[0]
			switch a0.K {
			case "i":
				x := reflect.ValueOf(a0.Build()).Int()
				big = (x > 300 || x < -300) && x <= 1000000 && x >= -1000000
			case "u":
				x := reflect.ValueOf(a0.Build()).Uint()
				big = x > 300 && x <= 1000000
			}
		}
		if !big {
			f += "%[1]*d"
		}
	}
	return args, f
}

// ---------- oracle ----------
type oracleT struct {
	entries map[string]string
}

func (o *oracleT) add(key string, val []byte) { o.entries[key] = hx(val) }

func collectVals(vs []*Val, f func(*Val)) {
	for _, v := range vs {
		if v == nil {
			continue
		}
		f(v)
		collectVals(v.Elems, f)
		collectVals(v.Keys, f)
		for _, a := range v.Script {
			collectVals(a.Args, f)
		}
	}
}

func collectActs(acts []*Act, fv func(*Val), fa func(*Act)) {
	for _, a := range acts {
		fa(a)
		collectVals(a.Args, func(v *Val) {
			fv(v)
		})
		for _, v := range a.Args {
			collectValActs(v, fv, fa)
		}
	}
}

func collectValActs(v *Val, fv func(*Val), fa func(*Act)) {
	if v == nil {
		return
	}
	collectActs(v.Script, fv, fa)
	for _, e := range v.Elems {
		collectValActs(e, fv, fa)
	}
	for _, e := range v.Keys {
		collectValActs(e, fv, fa)
	}
}

func digitRuns(s string, into map[int]bool) {
	cur := -1
	for i := 0; i < len(s); i++ {
		if s[i] >= '0' && s[i] <= '9' {
			if cur < 0 {
				cur = 0
			}
			if cur < 10000000 {
				cur = cur*10 + int(s[i]-'0')
			}
		} else {
			if cur >= 0 {
				into[cur] = true
			}
			cur = -1
		}
	}
	if cur >= 0 {
		into[cur] = true
	}
}

func truncRunes(s string, n int) string {
	for i := range s {
		n--
		if n < 0 {
			return s[:i]
		}
	}
	return s
}

func buildOracle(c *pcase) string {
	o := &oracleT{entries: map[string]string{}}
	precs := map[int]bool{}
	formats := []string{c.format}
	var floats []struct {
		bits uint64
		size int
	}
	strs := map[string]bool{"": true}
	ints := map[int64]bool{}
	fv := func(v *Val) {
		switch v.K {
		case "f":
			x := v.Build()
			rv := reflect.ValueOf(x)
			size := 64
			if rv.Kind() == reflect.Float32 {
				size = 32
			}
			floats = append(floats, struct {
				bits uint64
				size int
			}{math.Float64bits(rv.Float()), size})
		case "s", "bs", "rs", "rb":
			strs[v.S] = true
			if a, ok := v.Build().([4]byte); ok {
				strs[string(a[:])] = true
			}
			if v.K == "bs" {
				// bytes printed one by one as integers (%U, %q, %c of a byte slice)
				for _, b := range []byte(v.S) {
					ints[int64(b)] = true
				}
				ints[0] = true
			}
		case "i":
			ints[v.I] = true
			if v.I >= 0 && v.I <= 1000000 {
				precs[int(v.I)] = true
			}
		case "u":
			ints[int64(v.U)] = true
		case "usr":
			ints[int64(v.ID)] = true // the ID field, when a bad verb dumps the value's own fields
		case "safe":
			func() {
				defer func() { _ = recover() }()
				strs[fmt.Sprintf("%v", v.Elems[0].Build())] = true
			}()
		}
	}
	fa := func(a *Act) {
		switch a.K {
		case "ret", "write", "wstr", "ss", "us", "sbs", "ubs":
			strs[a.S] = true
		case "printf":
			formats = append(formats, a.S)
		case "panicrt":
			strs[rtPanicMsg(a.N)] = true
		case "sf":
			floats = append(floats, struct {
				bits uint64
				size int
			}{math.Float64bits(a.F), 64})
		}
	}
	all := append([]*Val{}, c.args...)
	collectVals(all, fv)
	for _, v := range all {
		collectValActs(v, fv, fa)
	}
	collectActs(c.acts, fv, fa)
	collectActs(c.hook, fv, fa)
	anyQ, anyU := false, false
	for _, f := range formats {
		digitRuns(f, precs)
		if strings.Contains(f, ".") {
			precs[0] = true // "%.v": a precision of zero without a digit
		}
		if strings.ContainsAny(f, "q#") {
			anyQ = true
		}
		if strings.Contains(f, "U") {
			anyU = true
		}
	}
	// floats
	for _, fl := range floats {
		v := math.Float64frombits(fl.bits)
		ps := []int{-1, 6}
		for p := range precs {
			ps = append(ps, p)
		}
		for _, fc := range "eEfgGbxX" {
			for _, p := range ps {
				if p > 2000 {
					continue
				}
				r := strconv.AppendFloat(nil, v, byte(fc), p, fl.size)
				o.add(sx("fl", u64(fl.bits), itoa(int(fc)), itoa(p), itoa(fl.size)), r)
			}
		}
	}
	if anyQ {
		for s := range strs {
			variants := map[string]bool{s: true}
			for p := range precs {
				if p <= len(s) {
					variants[truncRunes(s, p)] = true
				}
			}
			for t := range variants {
				o.add(sx("q", hxs(t)), strconv.AppendQuote(nil, t))
				o.add(sx("qa", hxs(t)), strconv.AppendQuoteToASCII(nil, t))
				bq := "0"
				if strconv.CanBackquote(t) {
					bq = "1"
				}
				o.add(sx("bq", hxs(t)), []byte(bq))
			}
		}
		for n := range ints {
			r := rune(n)
			if uint64(n) > utf8.MaxRune {
				r = utf8.RuneError
			}
			o.add(sx("qr", i64(int64(r))), strconv.AppendQuoteRune(nil, r))
			o.add(sx("qra", i64(int64(r))), strconv.AppendQuoteRuneToASCII(nil, r))
		}
	}
	if anyU {
		for n := range ints {
			if uint64(n) <= utf8.MaxRune {
				ip := "0"
				if strconv.IsPrint(rune(n)) {
					ip = "1"
				}
				o.add(sx("ip", i64(n)), []byte(ip))
			}
		}
	}
	keys := make([]string, 0, len(o.entries))
	for k := range o.entries {
		keys = append(keys, k)
	}
	sort.Strings(keys)
	parts := []string{"oracle"}
	for _, k := range keys {
		parts = append(parts, sx(k, o.entries[k]))
	}
	return sx(parts...)
}

// ---------- running a case ----------
type countWriter struct {
	writes [][]byte
	fail   bool
}

func (w *countWriter) Write(p []byte) (int, error) {
	w.writes = append(w.writes, append([]byte(nil), p...))
	if w.fail {
		return len(p) / 2, errors.New("writer failed")
	}
	return len(p), nil
}

func errID(e error) int {
	if e == nil {
		return -1
	}
	rv := reflect.ValueOf(e)
	for rv.Kind() == reflect.Ptr {
		if rv.IsNil() {
			return -2
		}
		rv = rv.Elem()
	}
	if rv.Kind() == reflect.Struct && rv.NumField() == 1 {
		return int(rv.Field(0).Int())
	}
	return -3
}

func actsDSL(acts []*Act) string {
	parts := make([]string, len(acts))
	for i, a := range acts {
		parts[i] = a.DSL()
	}
	return strings.Join(parts, " ")
}

func applyBuilderAct(sb *redact.StringBuilder, a *Act) {
	switch a.K {
	case "write":
		_, _ = sb.Write([]byte(a.S))
	case "wstr":
		_, _ = sb.WriteString(a.S)
	case "ss":
		sb.SafeString(redact.SafeString(a.S))
	case "si":
		sb.SafeInt(redact.SafeInt(a.N))
	case "su":
		sb.SafeUint(redact.SafeUint(a.U))
	case "sf":
		sb.SafeFloat(redact.SafeFloat(a.F))
	case "sr":
		sb.SafeRune(redact.SafeRune(rune(a.N)))
	case "sb":
		sb.SafeByte(i.SafeByte(byte(a.N)))
	case "sbs":
		sb.SafeBytes(i.SafeBytes([]byte(a.S)))
	case "us":
		sb.UnsafeString(a.S)
	case "ub":
		sb.UnsafeByte(byte(a.N))
	case "ubs":
		sb.UnsafeBytes([]byte(a.S))
	case "ur":
		sb.UnsafeRune(rune(a.N))
	case "print":
		sb.Print(buildAll(a.Args)...)
	case "printf":
		sb.Printf(a.S, buildAll(a.Args)...)
	}
}

func runPCase(c *pcase) string {
	resetScripts()
	setRegistry(c.reg)
	if c.useHook {
		setHook(c.hook)
	} else {
		setHook(nil)
	}
	args := buildAll(c.args)
	// make sure every script value is registered (nested ones build lazily)
	collectVals(c.args, func(v *Val) { v.Build() })
	for _, v := range c.args {
		collectValActs(v, func(x *Val) { x.Build() }, func(*Act) {})
	}
	collectActs(c.acts, func(x *Val) { x.Build() }, func(*Act) {})
	collectActs(c.hook, func(x *Val) { x.Build() }, func(*Act) {})

	var entry, obs string
	var ret *string // the string handed to the caller (zero-copy from the printer's buffer)
	func() {
		defer func() {
			if r := recover(); r != nil {
				obs = sx("panic", b01(panicMayPropagate(c)))
			}
		}()
		switch c.entry {
		case "sprint":
			s := string(redact.Sprint(args...))
			ret = &s
			obs = sx("out", hxs(s))
		case "sprintf":
			s := string(redact.Sprintf(c.format, args...))
			ret = &s
			obs = sx("out", hxs(s))
		case "errorf":
			s, e := redact.HelperForErrorf(c.format, args...)
			ss := string(s)
			ret = &ss
			obs = sx("out", hxs(string(s)), itoa(errID(e)))
		case "fprint":
			w := &countWriter{}
			n, err := redact.Fprint(w, args...)
			obs = sx("out", hx(concat(w.writes)), itoa(len(w.writes)), itoa(n), b01(err == nil))
		case "fprintf":
			w := &countWriter{}
			n, err := redact.Fprintf(w, c.format, args...)
			obs = sx("out", hx(concat(w.writes)), itoa(len(w.writes)), itoa(n), b01(err == nil))
		case "sprintfn":
			s := redact.Sprintfn(func(p redact.SafePrinter) {
				for _, a := range c.acts {
					runAction(a, p)
				}
			})
			ss := string(s)
			ret = &ss
			obs = sx("out", hxs(string(s)))
		case "builder":
			var sb redact.StringBuilder
			for _, a := range c.acts {
				applyBuilderAct(&sb, a)
			}
			obs = sx("out", hxs(string(sb.RedactableString())))
		}
	}()
	if len(obs) > 60000 {
		// a padding of tens of thousands of bytes: the list-based model needs quadratic time for
		// it; such cases are left to the black-box predicates
		return ""
	}
	switch c.entry {
	case "sprint", "fprint":
		entry = sx(c.entry, dslAll(c.args))
	case "sprintf", "errorf", "fprintf":
		entry = sx(c.entry, hxs(c.format), dslAll(c.args))
	case "sprintfn", "builder":
		entry = sx(c.entry, actsDSL(c.acts))
	}
	env := "(nohook)"
	if c.useHook {
		env = sx("hook", actsDSL(c.hook))
	}
	return sx("pcase", entry, env, buildOracle(c), obs) + postCheck(ret, entry)
}

// After a call has returned: (1) unrelated calls that reuse the pooled printers must give the
// results a fresh process gives (nothing of this call may stick to a recycled printer: override,
// panicking flag, captured error, buffer); (2) the string already handed to the caller must not
// change under those later calls (it shares the backing array of the printer's buffer).
var churnWant [3]string
var churnInit bool

func churn() [3]string {
	return [3]string{
		string(redact.Sprint("0123456789abcdefghijklmnopqrstuvwxyz", 12345)),
		string(redact.Sprintf("%v|%5d|%s", "zzzzzzzzzzzzzzzzzzzzzzzz", 77, redact.Safe("ok"))),
		string(redact.Sprint(churnStringer{}, 1.5)),
	}
}

type churnStringer struct{}

func (churnStringer) String() string { panic("churn-panic") }

func postCheck(ret *string, entry string) string {
	if !churnInit {
		return ""
	}
	var saved string
	if ret != nil {
		saved = string(append([]byte(nil), *ret...))
	}
	var got [3]string
	p, _ := try(func() { got = churn() })
	out := ""
	okC := !p && got == churnWant
	if p {
		out += "\n" + fmt.Sprintf("(qtrue C11 %s 0 %s)", hxs("after this call, an ordinary user-method panic escapes from an unrelated printing call"), hxs("after "+entry))
	}
	if !okC {
		out += "\n" + fmt.Sprintf("(qtrue C12 %s %s %s)", hxs("after this call, unrelated calls on recycled printers differ from those of a fresh process"), b01(okC),
			hxs(fmt.Sprintf("got %q want %q after %s", got, churnWant, entry)))
	}
	if ret != nil && *ret != saved {
		out += "\n" + fmt.Sprintf("(qtrue C11 %s 0 %s)", hxs("output already handed to the caller was overwritten by later, unrelated print calls"),
			hxs(fmt.Sprintf("was %q now %q after %s", saved, *ret, entry)))
	}
	return out
}

func init() {
	// the reference results, taken at process start before any case has run
	churnWant = churn()
	churnInit = true
}

func concat(ws [][]byte) []byte {
	var r []byte
	for _, w := range ws {
		r = append(r, w...)
	}
	return r
}

// ---------- generators ----------
func genPrinterRandom(w *bufio.Writer, rng *prng, n int, depth int, hostile bool) {
	for i := 0; i < n; i++ {
		g := &vgen{rng: rng, hostile: hostile}
		c := &pcase{reg: rng.coin(1, 4)}
		if rng.coin(1, 6) {
			c.useHook = true
			c.hook = g.script(0)
		}
		switch rng.intn(10) {
		case 0, 1:
			c.entry = "sprint"
			k := rng.intn(4)
			for j := 0; j < k; j++ {
				c.args = append(c.args, g.val(depth))
			}
		case 2, 3, 4, 5:
			c.entry = "sprintf"
			c.args, c.format = g.formatFor(depth, rng.intn(4))
		case 6:
			c.entry = "errorf"
			c.args, c.format = g.formatFor(depth, rng.intn(3))
		case 7:
			c.entry = "sprintfn"
			c.acts = g.script(depth)
		case 8:
			c.entry = "builder"
			c.acts = g.script(depth)
		case 9:
			c.entry = "fprintf"
			c.args, c.format = g.formatFor(depth, rng.intn(3))
		}
		fmt.Fprintln(w, runPCase(c))
	}
}

// A panic may leave a print call only when it is raised while a panic payload is being
// printed (nested panic, as in fmt), or by the Sprintfn callback itself (the caller's own
// function, not a formatting method).
func valCanPanic(v *Val) bool {
	can := false
	var walkV func(v *Val)
	var walkA func(a *Act)
	walkA = func(a *Act) {
		if a.K == "panic" || a.K == "panicrt" {
			can = true
		}
		for _, x := range a.Args {
			walkV(x)
		}
	}
	walkV = func(v *Val) {
		if v == nil {
			return
		}
		for _, a := range v.Script {
			walkA(a)
		}
		for _, e := range v.Elems {
			walkV(e)
		}
		for _, e := range v.Keys {
			walkV(e)
		}
	}
	walkV(v)
	return can
}

func panicMayPropagate(c *pcase) bool {
	may := false
	var walkV func(v *Val)
	var walkA func(a *Act)
	walkA = func(a *Act) {
		if a.K == "panic" {
			for _, x := range a.Args {
				if valCanPanic(x) {
					may = true
				}
			}
		}
		for _, x := range a.Args {
			walkV(x)
		}
	}
	walkV = func(v *Val) {
		if v == nil {
			return
		}
		for _, a := range v.Script {
			walkA(a)
		}
		for _, e := range v.Elems {
			walkV(e)
		}
		for _, e := range v.Keys {
			walkV(e)
		}
	}
	for _, v := range c.args {
		walkV(v)
	}
	for _, a := range c.hook {
		walkA(a)
		// a hook that panics is called again for the payload of its own panic when that payload is
		// an error (a runtime error, an error value): a panic raised while a payload is printed
		if c.useHook && (a.K == "panic" || a.K == "panicrt") {
			may = true
		}
	}
	for _, a := range c.acts {
		walkA(a)
		if (a.K == "panic" || a.K == "panicrt") && c.entry == "sprintfn" {
			may = true
		}
	}
	return may
}
