package main

import (
	"fmt"
	"io"

	"github.com/cockroachdb/redact"
	i "github.com/cockroachdb/redact/interfaces"
)

// scripts of the user values of the current case, by ID
var scripts = map[int][]*Act{}

// hook script of the current case (RegisterRedactErrorFn), nil = no hook
var hookScript []*Act

// IDs are never reused, and built values are memoized: entries stay valid for the
// lifetime of their values; the table is only emptied to bound memory.
func resetScripts() {
	if len(scripts) > 200000 {
		scripts = map[int][]*Act{}
	}
}

// String / Error / GoString / SafeMessage: the first ret or panic decides.
func runStringMethod(id int) string {
	for _, a := range scripts[id] {
		switch a.K {
		case "ret":
			return a.S
		case "panic":
			panic(a.Args[0].Build())
		case "panicrt":
			rtPanic(a.N)
		}
	}
	return ""
}

// a genuine Go runtime panic (runtime.Error) whose message carries a number taken from the
// script: index out of range [n] with length 3
func rtPanic(n int64) {
	s := make([]int, 3)
	i := int(n)
	if i < 3 {
		i = 3
	}
	_ = s[i]
}

// the text of that panic's Error()
func rtPanicMsg(n int64) (msg string) {
	defer func() {
		if r := recover(); r != nil {
			msg = r.(error).Error()
		}
	}()
	rtPanic(n)
	return ""
}

func dumpState(s fmt.State) string {
	w, wok := s.Width()
	p, pok := s.Precision()
	return fmt.Sprintf("w=%d/%v p=%d/%v f=%v%v%v%v%v", w, wok, p, pok,
		s.Flag('-'), s.Flag('+'), s.Flag('#'), s.Flag(' '), s.Flag('0'))
}

// one action against a SafePrinter (which is also a fmt.State)
func runAction(a *Act, sp redact.SafePrinter) {
	switch a.K {
	case "ret":
	case "panic":
		panic(a.Args[0].Build())
	case "panicrt":
		rtPanic(a.N)
	case "write":
		_, _ = sp.Write([]byte(a.S))
	case "wstr":
		_, _ = io.WriteString(sp, a.S)
	case "ss":
		sp.SafeString(redact.SafeString(a.S))
	case "si":
		sp.SafeInt(redact.SafeInt(a.N))
	case "su":
		sp.SafeUint(redact.SafeUint(a.U))
	case "sf":
		sp.SafeFloat(redact.SafeFloat(a.F))
	case "sr":
		sp.SafeRune(redact.SafeRune(rune(a.N)))
	case "sb":
		sp.SafeByte(i.SafeByte(byte(a.N)))
	case "sbs":
		sp.SafeBytes(i.SafeBytes([]byte(a.S)))
	case "us":
		sp.UnsafeString(a.S)
	case "ub":
		sp.UnsafeByte(byte(a.N))
	case "ubs":
		sp.UnsafeBytes([]byte(a.S))
	case "ur":
		sp.UnsafeRune(rune(a.N))
	case "print":
		sp.Print(buildAll(a.Args)...)
	case "printf":
		sp.Printf(a.S, buildAll(a.Args)...)
	case "dump":
		_, _ = sp.Write([]byte(dumpState(sp)))
	default:
		panic("unknown action " + a.K)
	}
}

// Format: the fmt.State handed by redact's printer is a SafePrinter.
func runFormatMethod(id int, s fmt.State, verb rune) {
	sp, ok := s.(redact.SafePrinter)
	if !ok {
		// called by the standard fmt package: only plain writes are possible
		for _, a := range scripts[id] {
			switch a.K {
			case "panic":
				panic(a.Args[0].Build())
			case "panicrt":
				rtPanic(a.N)
			case "write", "us", "ss":
				_, _ = s.Write([]byte(a.S))
			case "wstr":
				_, _ = io.WriteString(s, a.S)
			case "dump":
				_, _ = s.Write([]byte(dumpState(s)))
			}
		}
		return
	}
	for _, a := range scripts[id] {
		runAction(a, sp)
	}
}

func runSafeFormatMethod(id int, p redact.SafePrinter, verb rune) {
	for _, a := range scripts[id] {
		runAction(a, p)
	}
}

// the registered error hook
func hookFn(err error, p redact.SafePrinter, verb rune) {
	for _, a := range hookScript {
		runAction(a, p)
	}
}

func setHook(h []*Act) {
	hookScript = h
	redact.VerifClearErrorFn()
	if h != nil {
		redact.RegisterRedactErrorFn(hookFn)
	}
}
