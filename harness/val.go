package main

import (
	"fmt"
	"math"
	"reflect"
	"sort"
	"strings"

	"github.com/cockroachdb/redact"
)

// Val is a value of the shared case language: it can be turned into a real Go
// value (Build) and rendered in the DSL read by the OCaml driver (DSL).
type Val struct {
	K       string // nil b i u f s bs sl ar mp st ptr safe unsafe rs rb usr
	GoT     string // Go type selector
	B       bool
	I       int64
	U       uint64
	F       float64
	S       string
	Nil     bool
	Elems   []*Val // elements / field values / map values / wrapped value
	Keys    []*Val // map keys
	UK      int    // user kind index
	ID      int
	PtrK    int // 0 value, 1 non-nil pointer, 2 nil pointer
	Script  []*Act
	built   interface{}
	isBuilt bool
}

type Act struct {
	K    string // ret panic write ss si su sf sr sb sbs us ub ubs ur print printf dump
	S    string
	N    int64
	U    uint64
	F    float64
	Args []*Val
}

// registry configuration of the current case
var regTypes = map[reflect.Type]bool{}

func setRegistry(on bool) {
	redact.VerifResetSafeTypes()
	regTypes = map[reflect.Type]bool{}
	if on {
		for _, t := range []reflect.Type{reflect.TypeOf(RegInt(0)), reflect.TypeOf(RegStr("")), reflect.TypeOf(URegStringer{}), reflect.TypeOf(RegSt{}), reflect.TypeOf(uint16(0))} {
			redact.RegisterSafeType(t)
			regTypes[t] = true
		}
	}
}

func tinfo(x interface{}) string {
	t := reflect.TypeOf(x)
	_, sv := x.(redact.SafeValue)
	return sx("t", hxs(t.String()), b01(sv), b01(regTypes[t]))
}

func tinfoT(t reflect.Type) string {
	return sx("t", hxs(t.String()), "0", b01(regTypes[t]))
}

// Build returns the Go value (memoized: addresses must stay the same between Build and DSL).
func (v *Val) Build() interface{} {
	if v.isBuilt {
		return v.built
	}
	v.built = v.build()
	v.isBuilt = true
	return v.built
}

func (v *Val) build() interface{} {
	switch v.K {
	case "nil":
		return nil
	case "b":
		if v.GoT == "MyBool" {
			return MyBool(v.B)
		}
		return v.B
	case "i":
		switch v.GoT {
		case "int":
			return int(v.I)
		case "int8":
			return int8(v.I)
		case "int16":
			return int16(v.I)
		case "int32":
			return int32(v.I)
		case "int64":
			return v.I
		case "MyInt":
			return MyInt(v.I)
		case "SvInt":
			return SvInt(v.I)
		case "RegInt":
			return RegInt(v.I)
		case "SafeInt":
			return redact.SafeInt(v.I)
		}
	case "u":
		switch v.GoT {
		case "uint":
			return uint(v.U)
		case "uint8":
			return uint8(v.U)
		case "uint16":
			return uint16(v.U)
		case "uint32":
			return uint32(v.U)
		case "uint64":
			return v.U
		case "uintptr":
			return uintptr(v.U)
		case "MyUint":
			return MyUint(v.U)
		case "SafeUint":
			return redact.SafeUint(v.U)
		}
	case "f":
		switch v.GoT {
		case "float64":
			return v.F
		case "float32":
			return float32(v.F)
		case "MyFloat":
			return MyFloat(v.F)
		case "SafeFloat":
			return redact.SafeFloat(v.F)
		}
	case "s":
		switch v.GoT {
		case "string":
			return v.S
		case "MyStr":
			return MyStr(v.S)
		case "SvStr":
			return SvStr(v.S)
		case "RegStr":
			return RegStr(v.S)
		case "SafeString":
			return redact.SafeString(v.S)
		}
	case "bs":
		var b []byte
		if !v.Nil {
			b = []byte(v.S)
			if b == nil {
				b = []byte{}
			}
		}
		if v.GoT == "MyBytes" {
			return MyBytes(b)
		}
		if v.GoT == "[4]byte" {
			var a [4]byte
			copy(a[:], b)
			return a
		}
		return b
	case "sl":
		switch v.GoT {
		case "[]interface{}":
			if v.Nil {
				return []interface{}(nil)
			}
			r := make([]interface{}, len(v.Elems))
			for i, e := range v.Elems {
				r[i] = e.Build()
			}
			return r
		case "[]int":
			r := make([]int, len(v.Elems))
			for i, e := range v.Elems {
				r[i] = int(e.I)
			}
			if v.Nil {
				return []int(nil)
			}
			return r
		case "[]string":
			r := make([]string, len(v.Elems))
			for i, e := range v.Elems {
				r[i] = e.S
			}
			return r
		case "[]RedactableString":
			r := make([]redact.RedactableString, len(v.Elems))
			for i, e := range v.Elems {
				r[i] = redact.RedactableString(e.S)
			}
			return r
		}
	case "ar":
		var r [2]interface{}
		for i, e := range v.Elems {
			r[i] = e.Build()
		}
		return r
	case "mp":
		switch v.GoT {
		case "map[string]interface{}":
			if v.Nil {
				return map[string]interface{}(nil)
			}
			r := map[string]interface{}{}
			for i, k := range v.Keys {
				r[k.S] = v.Elems[i].Build()
			}
			return r
		case "map[MyStr]interface{}":
			r := map[MyStr]interface{}{}
			for i, k := range v.Keys {
				r[MyStr(k.S)] = v.Elems[i].Build()
			}
			return r
		case "map[SvStr]interface{}":
			r := map[SvStr]interface{}{}
			for i, k := range v.Keys {
				r[SvStr(k.S)] = v.Elems[i].Build()
			}
			return r
		case "map[RegStr]interface{}":
			r := map[RegStr]interface{}{}
			for i, k := range v.Keys {
				r[RegStr(k.S)] = v.Elems[i].Build()
			}
			return r
		case "map[int]interface{}":
			r := map[int]interface{}{}
			for i, k := range v.Keys {
				r[int(k.I)] = v.Elems[i].Build()
			}
			return r
		}
	case "st":
		switch v.GoT {
		case "St2":
			return St2{A: v.Elems[0].Build(), b: v.Elems[1].Build()}
		case "RegSt":
			return RegSt{N: v.Elems[0].S, V: int(v.Elems[1].I)}
		case "St4":
			return St4{L: v.Elems[0].Build().(UStrSafeValue), secret: v.Elems[1].S}
		case "St5":
			return St5{first: v.Elems[0].S, L: v.Elems[1].Build().(UStrSafeValue), S: SvStr(v.Elems[2].S), tail: v.Elems[3].S}
		case "St3":
			var e error
			if x := v.Elems[3].Build(); x != nil {
				e = x.(error)
			}
			return St3{X: int(v.Elems[0].I), Y: v.Elems[1].S, z: v.Elems[2].Build(), E: e}
		}
	case "ptr":
		switch v.GoT {
		case "*St2":
			if v.Nil {
				return (*St2)(nil)
			}
			x := v.Elems[0].Build().(St2)
			return &x
		case "*RegSt":
			if v.Nil {
				return (*RegSt)(nil)
			}
			x := v.Elems[0].Build().(RegSt)
			return &x
		case "*int":
			if v.Nil {
				return (*int)(nil)
			}
			x := int(v.Elems[0].I)
			return &x
		}
	case "safe":
		return redact.Safe(v.Elems[0].Build())
	case "unsafe":
		return redact.Unsafe(v.Elems[0].Build())
	case "rs":
		return redact.RedactableString(v.S)
	case "rb":
		return redact.RedactableBytes([]byte(v.S))
	case "usr":
		uk := userKinds[v.UK]
		scripts[v.ID] = v.Script
		switch v.PtrK {
		case 0:
			return uk.mk(v.ID)
		case 1:
			return uk.mkPtr(v.ID)
		default:
			return uk.mkNil()
		}
	}
	panic("cannot build " + v.K + "/" + v.GoT)
}

func slot(tn string, e *Val) string {
	if e == nil || e.K == "nil" {
		return sx("if", hxs(tn))
	}
	return sx("if", hxs(tn), e.DSL())
}

// DSL renders the value. Build must have been called (addresses).
func (v *Val) DSL() string {
	x := v.Build()
	switch v.K {
	case "nil":
		return "nil"
	case "b":
		return sx("b", tinfo(x), b01(v.B))
	case "i":
		return sx("i", tinfo(x), u64(uint64(reflect.ValueOf(x).Int())))
	case "u":
		return sx("u", tinfo(x), u64(reflect.ValueOf(x).Uint()))
	case "f":
		rv := reflect.ValueOf(x)
		size := 64
		if rv.Kind() == reflect.Float32 {
			size = 32
		}
		return sx("f", tinfo(x), itoa(size), u64(math.Float64bits(rv.Float())))
	case "s":
		return sx("s", tinfo(x), hxs(v.S))
	case "bs":
		if a, ok := x.([4]byte); ok {
			// an array: its four bytes, whatever the length of the string it was built from
			return sx("bs", tinfo(x), "0", hxs(string(a[:])))
		}
		return sx("bs", tinfo(x), b01(v.Nil), hxs(v.S))
	case "sl":
		parts := []string{"sl", tinfo(x), b01(v.Nil)}
		for _, e := range v.Elems {
			if v.GoT == "[]interface{}" {
				parts = append(parts, slot("interface {}", e))
			} else {
				parts = append(parts, e.DSL())
			}
		}
		return sx(parts...)
	case "ar":
		parts := []string{"ar", tinfo(x)}
		for _, e := range v.Elems {
			parts = append(parts, slot("interface {}", e))
		}
		return sx(parts...)
	case "mp":
		parts := []string{"mp", tinfo(x), b01(v.Nil)}
		// fmtsort order: strings bytewise, ints numerically
		idx := make([]int, len(v.Keys))
		for i := range idx {
			idx[i] = i
		}
		sort.Slice(idx, func(a, b int) bool {
			if v.GoT == "map[int]interface{}" {
				return v.Keys[idx[a]].I < v.Keys[idx[b]].I
			}
			return v.Keys[idx[a]].S < v.Keys[idx[b]].S
		})
		seen := map[string]bool{}
		for _, i := range idx {
			k := v.Keys[i]
			kk := fmt.Sprintf("%d/%s", k.I, k.S)
			if seen[kk] {
				continue
			}
			seen[kk] = true
			// duplicate keys: the map holds the last one built; find it
			last := i
			for j := range v.Keys {
				if fmt.Sprintf("%d/%s", v.Keys[j].I, v.Keys[j].S) == kk {
					last = j
				}
			}
			parts = append(parts, sx(k.DSL(), slot("interface {}", v.Elems[last])))
		}
		return sx(parts...)
	case "st":
		parts := []string{"st", tinfo(x)}
		rt := reflect.TypeOf(x)
		for i := 0; i < rt.NumField(); i++ {
			f := rt.Field(i)
			exported := f.PkgPath == ""
			e := v.Elems[i]
			var fv string
			if f.Type.Kind() == reflect.Interface {
				// getField unwraps a non-nil interface
				if e == nil || e.K == "nil" {
					fv = sx("if", hxs(f.Type.String()))
				} else {
					fv = e.DSL()
				}
			} else {
				fv = e.DSL()
			}
			parts = append(parts, sx(hxs(f.Name), b01(exported), fv))
		}
		return sx(parts...)
	case "ptr":
		if v.Nil {
			return sx("ptr", tinfo(x), "0")
		}
		return sx("ptr", tinfo(x), u64(uint64(reflect.ValueOf(x).Pointer())), v.Elems[0].DSL())
	case "safe":
		// the wrapper's SafeMessage() text (no longer read by the model); computing it runs user
		// methods, which may panic
		msg := ""
		func() {
			defer func() { _ = recover() }()
			msg = fmt.Sprintf("%v", v.Elems[0].Build())
		}()
		return sx("safe", v.Elems[0].DSL(), hxs(msg))
	case "unsafe":
		return sx("unsafe", v.Elems[0].DSL())
	case "rs":
		return sx("rs", hxs(v.S))
	case "rb":
		return sx("rb", hxs(v.S))
	case "usr":
		uk := userKinds[v.UK]
		ifs := []string{"ifs"}
		for _, b := range uk.ifaces {
			ifs = append(ifs, b01(b))
		}
		rt := reflect.TypeOf(x)
		var repr string
		idv := func(st reflect.Type) string {
			return sx("st", tinfoT(st), sx(hxs("ID"), "1", sx("i", tinfo(int(0)), u64(uint64(int64(v.ID))))))
		}
		switch v.PtrK {
		case 0:
			repr = idv(rt)
		case 1:
			repr = sx("ptr", tinfoT(rt), u64(uint64(reflect.ValueOf(x).Pointer())), idv(rt.Elem()))
		default:
			repr = sx("ptr", tinfoT(rt), "0")
		}
		acts := []string{}
		for _, a := range v.Script {
			acts = append(acts, a.DSL())
		}
		return sx("usr", tinfo(x), sx(ifs...), b01(v.PtrK == 2), repr, "("+strings.Join(acts, " ")+")")
	}
	panic("cannot render " + v.K)
}

func (a *Act) DSL() string {
	switch a.K {
	case "ret", "write", "wstr", "ss", "sbs", "us", "ubs":
		return sx(a.K, hxs(a.S))
	case "panic":
		return sx("panic", a.Args[0].DSL())
	case "panicrt":
		// the payload is a runtime.Error: for the model, an error value whose Error() returns the message
		msg := rtPanicMsg(a.N)
		pv := sx("usr", sx("t", hxs("runtime.boundsError"), "0", "0"), sx("ifs", "0", "0", "1", "0", "0", "0"), "0",
			sx("st", sx("t", hxs("runtime.boundsError"), "0", "0")), sx(sx("ret", hxs(msg))))
		return sx("panic", pv)
	case "si":
		return sx("si", u64(uint64(a.N)))
	case "su":
		return sx("su", u64(a.U))
	case "sf":
		return sx("sf", u64(math.Float64bits(a.F)))
	case "sr", "ur":
		return sx(a.K, i64(a.N))
	case "sb", "ub":
		return sx(a.K, i64(a.N))
	case "print":
		parts := []string{"print"}
		for _, x := range a.Args {
			parts = append(parts, x.DSL())
		}
		return sx(parts...)
	case "printf":
		parts := []string{"printf", hxs(a.S)}
		for _, x := range a.Args {
			parts = append(parts, x.DSL())
		}
		return sx(parts...)
	case "dump":
		return "(dump)"
	}
	panic("cannot render action " + a.K)
}

func buildAll(vs []*Val) []interface{} {
	r := make([]interface{}, len(vs))
	for i, v := range vs {
		r[i] = v.Build()
	}
	return r
}

func dslAll(vs []*Val) string {
	parts := make([]string, len(vs))
	for i, v := range vs {
		parts[i] = v.DSL()
	}
	return strings.Join(parts, " ")
}
