package main

// splitmix64: every random choice of the harness derives from one state.
type prng struct{ s uint64 }

func newPrng(seed uint64) *prng { return &prng{s: seed*0x9E3779B97F4A7C15 + 0x1234567} }

func (p *prng) next() uint64 {
	p.s += 0x9E3779B97F4A7C15
	z := p.s
	z = (z ^ (z >> 30)) * 0xBF58476D1CE4E5B9
	z = (z ^ (z >> 27)) * 0x94D049BB133111EB
	return z ^ (z >> 31)
}

func (p *prng) intn(n int) int {
	if n <= 0 {
		return 0
	}
	return int(p.next() % uint64(n))
}

func (p *prng) coin(num, den int) bool { return p.intn(den) < num }

func (p *prng) pick(xs []string) string { return xs[p.intn(len(xs))] }
