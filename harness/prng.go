package main

// splitmix64: every random choice of the harness derives from one state.
type prng struct{ s uint64 }

// The state is a hash of the seed (not a multiple of the increment: seeds k and k+1 would
// otherwise give the same stream shifted by one draw, and the shards of a check would overlap).
func newPrng(seed uint64) *prng {
	z := seed + 0x1234567
	z = (z ^ (z >> 30)) * 0xBF58476D1CE4E5B9
	z = (z ^ (z >> 27)) * 0x94D049BB133111EB
	z ^= z >> 31
	z = (z ^ (z >> 33)) * 0xFF51AFD7ED558CCD
	z ^= z >> 29
	return &prng{s: z}
}

func (p *prng) next() uint64 {
	p.s += 0x9E3779B97F4A7C15
	z := p.s
	z = (z ^ (z >> 30)) * 0xBF58476D1CE4E5B9
	z = (z ^ (z >> 27)) * 0x94D049BB133111EB
	return z ^ (z >> 31)
}

func (p *prng) intn(n int) int {
	if n <= 0 {
		return 0
	}
	return int(p.next() % uint64(n))
}

func (p *prng) coin(num, den int) bool { return p.intn(den) < num }

func (p *prng) pick(xs []string) string { return xs[p.intn(len(xs))] }
