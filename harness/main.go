package main

import (
	"bufio"
	"flag"
	"fmt"
	"os"
)

var curSeed uint64

func main() {
	gen := flag.String("gen", "", "generator name")
	seed := flag.Uint64("seed", 1, "PRNG seed")
	n := flag.Int("n", 1000, "number of random cases")
	depth := flag.Int("depth", 3, "exhaustive depth / max length")
	flag.Parse()
	w := bufio.NewWriterSize(os.Stdout, 1<<20)
	defer w.Flush()
	rng := newPrng(*seed)
	curSeed = *seed
	switch *gen {
	case "escape":
		genEscape(w, rng, *depth, *n)
	case "escbytes":
		genEscBytes(w, rng, *depth, *n)
	case "markers":
		genMarkers(w, rng, *depth, *n)
	default:
		if !runGen2(*gen, w, rng, *n, *depth) {
			fmt.Fprintf(os.Stderr, "unknown generator %q\n", *gen)
			os.Exit(2)
		}
	}
}
