package main

import (
	"bufio"
	"fmt"
	"strings"

	"github.com/cockroachdb/redact"
)

// One operation on a ManualBuffer / StringBuilder.
type bop struct {
	k string // kind
	s string // payload
	n int64  // number (mode, byte, rune, count)
}

func (o bop) String() string {
	switch o.k {
	case "m", "wb", "wr", "grow", "sr", "sb", "ur", "ub", "si", "su":
		return sx(o.k, i64(o.n))
	case "w", "ws", "ss", "sbs", "us", "ubs":
		return sx(o.k, hxs(o.s))
	case "sf":
		return sx(o.k, i64(o.n), hxs(o.s))
	}
	return sx(o.k)
}

func stateStr(buf []byte, vu, mode int, open bool, capacity int) string {
	return sx("st", hx(buf), itoa(vu), itoa(mode), b01(open), itoa(capacity))
}

func setModeManual(mb *redact.ManualBuffer, n int64) {
	switch n {
	case 0:
		mb.SetMode(0)
	case 1:
		mb.SetMode(1)
	default:
		mb.SetMode(2)
	}
}

// applyManual performs op and returns the observation "(r ...)" / "(none)" / "(panic)".
func applyManual(mb *redact.ManualBuffer, o bop) (res string) {
	defer func() {
		if r := recover(); r != nil {
			res = "(panic)"
		}
	}()
	switch o.k {
	case "m":
		setModeManual(mb, o.n)
	case "w":
		n, err := mb.Write([]byte(o.s))
		return sx("n", itoa(n), b01(err == nil))
	case "ws":
		n, err := mb.WriteString(o.s)
		return sx("n", itoa(n), b01(err == nil))
	case "wb":
		err := mb.WriteByte(byte(o.n))
		return sx("n", "0", b01(err == nil))
	case "wr":
		err := mb.WriteRune(rune(o.n))
		return sx("n", "0", b01(err == nil))
	case "grow":
		mb.Grow(int(o.n))
	case "len":
		return sx("n", itoa(mb.Len()), "1")
	case "cap":
		_ = mb.Cap()
	case "str":
		return sx("r", hxs(mb.String()))
	case "rs":
		return sx("r", hxs(string(mb.RedactableString())))
	case "rb":
		return sx("r", hx([]byte(mb.RedactableBytes())))
	case "getmode":
		return sx("n", itoa(int(mb.GetMode())), "1")
	case "take":
		return sx("r", hxs(string(mb.TakeRedactableString())))
	case "takeb":
		return sx("r", hx([]byte(mb.TakeRedactableBytes())))
	case "reset":
		mb.Reset()
	default:
		panic("unknown op " + o.k)
	}
	return "(none)"
}

// runManual executes ops on a fresh ManualBuffer and renders the case line.
// Strings returned by take/rs are re-read at the end ("kept") to detect later
// modification of a string handed out earlier (C13).
func runManual(ops []bop) string {
	var mb redact.ManualBuffer
	var sb strings.Builder
	sb.WriteString("(buffer manual")
	type keptT struct {
		s    redact.RedactableString
		orig string
	}
	var kept []keptT
	for _, o := range ops {
		var taken redact.RedactableString
		var res string
		if o.k == "take" || o.k == "rs" {
			// keep the very string value (not a copy) to re-read it later
			func() {
				defer func() {
					if r := recover(); r != nil {
						res = "(panic)"
					}
				}()
				if o.k == "take" {
					taken = mb.TakeRedactableString()
				} else {
					taken = mb.RedactableString()
				}
				res = sx("r", hxs(string(taken)))
			}()
			kept = append(kept, keptT{taken, string(append([]byte(nil), taken...))})
		} else {
			res = applyManual(&mb, o)
		}
		sb.WriteString(" (step " + o.String() + " " + res + " " + stateStr(redact.VerifBufferState(&mb)) + ")")
	}
	mutated := 0
	for _, kp := range kept {
		if string(kp.s) != kp.orig {
			mutated++
		}
	}
	sb.WriteString(" (kept-mutated " + itoa(mutated) + "))")
	return sb.String()
}

var rawFragments = []string{"", "a", "‹a›", "‹×›", "x‹b›y", "‹a›\n‹b›", "\n", "‹a› ", "é", "‹?›‹c›"}
var bufPayloads = []string{"", "a", " ", "\n", "\r\n", "‸", "※", "a\nb", "‹", "›", "×", "\xe2", "\xe2\x80", "\x80\xb9", "\xb9", "\xba", "é", "\xc3", "‹×›", "ab‹c›"}
var bufBytes = []int64{'a', '\n', ' ', 0xe2, 0x80, 0xb9, 0xba, 0xc3, '?'}
var bufRunes = []int64{'a', '\n', 0x2039, 0x203a, 0xd7, 0xe9, 0x1f6d1, 0xfffd}
var bufRunesInvalid = []int64{-1, 0xd800, 0xdfff, 0x110000, -2147483648, 2147483647}

func bufAlphabet(withInvalidRunes bool) []bop {
	var a []bop
	for m := int64(0); m < 3; m++ {
		a = append(a, bop{k: "m", n: m})
	}
	for _, p := range bufPayloads {
		a = append(a, bop{k: "w", s: p})
	}
	for _, p := range rawFragments[1:] {
		a = append(a, bop{k: "ws", s: p})
	}
	// WriteString of single bytes and short pieces (Write above takes the same payloads as []byte)
	for _, p := range []string{"a", "\n", "\xe2", "\xb9", "\xba", "\xc3", "é", "‹"} {
		a = append(a, bop{k: "ws", s: p})
	}
	for _, b := range bufBytes {
		a = append(a, bop{k: "wb", n: b})
	}
	for _, r := range bufRunes {
		a = append(a, bop{k: "wr", n: r})
	}
	if withInvalidRunes {
		for _, r := range bufRunesInvalid {
			a = append(a, bop{k: "wr", n: r})
		}
	}
	for _, k := range []string{"len", "str", "rs", "rb", "getmode", "cap", "take", "takeb", "reset"} {
		a = append(a, bop{k: k})
	}
	a = append(a, bop{k: "grow", n: 0}, bop{k: "grow", n: 70})
	return a
}

func randBop(rng *prng, alpha []bop) bop {
	switch rng.intn(10) {
	case 0:
		return bop{k: "w", s: randPayload(rng, 1+rng.intn(4))}
	case 1:
		return bop{k: "ws", s: randPayload(rng, 1+rng.intn(3))}
	case 2:
		return bop{k: "m", n: int64(rng.intn(3))}
	}
	return alpha[rng.intn(len(alpha))]
}

// genBuffer: all sequences over the alphabet up to the given depth, then n random longer ones.
func genBuffer(w *bufio.Writer, rng *prng, depth, n int, invalidRunes bool) {
	alpha := bufAlphabet(invalidRunes)
	// the exhaustive part is partitioned over the 8 shards by the low bits of the shard seed
	shard, idx := int(curSeed%8), 0
	var rec func(prefix []bop, d int)
	rec = func(prefix []bop, d int) {
		if d == 0 {
			idx++
			if idx%8 == shard {
				fmt.Fprintln(w, runManual(prefix))
			}
			return
		}
		for _, o := range alpha {
			rec(append(prefix, o), d-1)
		}
	}
	for d := 1; d <= depth; d++ {
		rec(nil, d)
	}
	// capacities beyond the 64 KiB above which free() drops a printer's buffer: a few fixed
	// shapes only (an array of that size is costly in the memory-level model)
	if !invalidRunes && shard == 0 {
		for _, pre := range [][]bop{{}, {{k: "w", s: "a"}}, {{k: "w", s: "a\n"}}, {{k: "w", s: ""}}, {{k: "m", n: 1}, {k: "w", s: "s"}}, {{k: "w", s: "\xe2"}}} {
			for _, mid := range []bop{{k: "reset"}, {k: "take"}, {k: "takeb"}, {k: "len"}, {k: "rs"}, {k: "m", n: 1}} {
				for _, post := range [][]bop{{{k: "w", s: "x"}}, {{k: "m", n: 0}, {k: "w", s: "y"}, {k: "len"}}} {
					ops := append(append(append([]bop{}, pre...), bop{k: "grow", n: 70000}, mid), post...)
					fmt.Fprintln(w, runManual(ops))
				}
			}
		}
	}
	for i := 0; i < n; i++ {
		l := 2 + rng.intn(14)
		ops := make([]bop, l)
		for j := range ops {
			ops[j] = randBop(rng, alpha)
		}
		fmt.Fprintln(w, runManual(ops))
	}
}
