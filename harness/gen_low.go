package main

import (
	"bufio"
	"fmt"
	"strings"

	"github.com/cockroachdb/redact"
)

// Alphabets. Each letter is a byte string ("piece").
var alphaEscape = []string{"a", " ", "\n", "?", "\xe2", "\x80", "\xb9", "\xba", "\xc3", "\x97", "\xb8", "\xbb"}
var alphaMarkers = []string{"‹", "›", "×", "\n", "a", "\xe2", "\x80", "\xb9", "\xba"}
var piecesHostile = []string{"a", "b", " ", "\n", "\n\n", "‹", "›", "×", "‹×›", "\xe2", "\x80", "\xb9", "\xba",
	"\xe2\x80", "é", "?", "\xc3", "☃", "\xf0\x9f\x9b", "%", "0", "x", "\r\n", "\r", "‸", "※", "\xb8", "\xbb"}

func recoverStr(f func() string) (out string) {
	defer func() {
		if r := recover(); r != nil {
			out = "(panic)"
		}
	}()
	return f()
}

// enumerate all strings of exactly n pieces over alpha.
func enumStrings(alpha []string, n int, f func(s string)) {
	idx := make([]int, n)
	for {
		s := ""
		for _, i := range idx {
			s += alpha[i]
		}
		f(s)
		k := n - 1
		for k >= 0 {
			idx[k]++
			if idx[k] < len(alpha) {
				break
			}
			idx[k] = 0
			k--
		}
		if k < 0 {
			return
		}
	}
}

func emitEscape(w *bufio.Writer, s string, startLoc int, bnl, strip bool) {
	out := recoverStr(func() string {
		// fresh copy with exact capacity, like a buffer's slice
		b := append(make([]byte, 0, len(s)), s...)
		r := redact.VerifInternalEscapeBytes(b, startLoc, bnl, strip)
		return sx("out", hx(r))
	})
	fmt.Fprintln(w, sx("escape", hxs(s), itoa(startLoc), b01(bnl), b01(strip), out))
}

// genEscape: exhaustive up to maxLen pieces, every startLoc, the 4 flag settings;
// then nRandom longer random strings.
func genEscape(w *bufio.Writer, rng *prng, maxLen, nRandom int) {
	for n := 0; n <= maxLen; n++ {
		enumStrings(alphaEscape, n, func(s string) {
			for sl := 0; sl <= len(s); sl++ {
				for fl := 0; fl < 4; fl++ {
					emitEscape(w, s, sl, fl&1 != 0, fl&2 != 0)
				}
			}
		})
	}
	// ASCII runs of every length up to 40 before and between the pieces that matter (word-at-a-time
	// scanning): from the start of the unescaped suffix and after a non-ASCII rune
	const asciiRun = "abcdefghijklmnopqrstuvwxyz0123456789ABCDEFGH"
	for l := 0; l <= 40; l++ {
		for _, piece := range []string{"‹", "›", "\xe2", "\xe2\x80", "\n", "é", "\xe2\x80\xb8"} {
			for _, pre := range []string{"", "é", "›"} {
				s := pre + asciiRun[:l] + piece + asciiRun[:l%9] + piece
				for _, sl := range []int{0, len(pre), len(pre) + l/2} {
					for fl := 0; fl < 4; fl++ {
						emitEscape(w, s, sl, fl&1 != 0, fl&2 != 0)
					}
				}
			}
		}
	}
	for i := 0; i < nRandom; i++ {
		s := randPayload(rng, 1+rng.intn(12))
		sl := rng.intn(len(s) + 1)
		fl := rng.intn(4)
		emitEscape(w, s, sl, fl&1 != 0, fl&2 != 0)
	}
}

func randPayload(rng *prng, n int) string {
	s := ""
	for i := 0; i < n; i++ {
		s += rng.pick(piecesHostile)
	}
	return s
}

func emitEscBytes(w *bufio.Writer, s string) {
	out := recoverStr(func() string { return sx("out", hx(redact.EscapeBytes([]byte(s)))) })
	fmt.Fprintln(w, sx("escbytes", hxs(s), out))
	out = recoverStr(func() string { return sx("out", hx(redact.EscapeMarkers([]byte(s)))) })
	fmt.Fprintln(w, sx("escmarkers", hxs(s), out))
}

func genEscBytes(w *bufio.Writer, rng *prng, maxLen, nRandom int) {
	for n := 0; n <= maxLen; n++ {
		enumStrings(alphaEscape, n, func(s string) { emitEscBytes(w, s) })
	}
	for l := 0; l <= 40; l++ {
		for _, piece := range []string{"‹", "›", "\xe2", "\xe2\x80", "\n", "é"} {
			emitEscBytes(w, "0123456789abcdefghijklmnopqrstuvwxyzABCDEFGH"[:l]+piece+"xyz"[:l%4]+piece)
		}
	}
	for i := 0; i < nRandom; i++ {
		emitEscBytes(w, randPayload(rng, 1+rng.intn(14)))
	}
}

func emitMarkers(w *bufio.Writer, s string) {
	out := recoverStr(func() string {
		rs := redact.RedactableString(s)
		rb := redact.RedactableBytes([]byte(s))
		return sx("out",
			hxs(string(rs.Redact())), hxs(rs.StripMarkers()),
			hx([]byte(rb.Redact())), hx(rb.StripMarkers()),
			hx([]byte(rs.ToBytes())), hxs(string(rb.ToString())),
			hxs(string(rs.Redact().Redact())))
	})
	fmt.Fprintln(w, sx("markers", hxs(s), out))
	// results are values: what an earlier call returned is not changed by later calls (scratch
	// storage shared between calls)
	{
		rb := redact.RedactableBytes([]byte(s))
		var r1, s1 []byte
		pn, _ := try(func() { r1 = []byte(rb.Redact()); s1 = []byte(redact.RedactableBytes(rb.StripMarkers())) })
		if !pn {
			if prevMarkers.set {
				ok := string(prevMarkers.redacted) == prevMarkers.redactedCopy && string(prevMarkers.stripped) == prevMarkers.strippedCopy
				fmt.Fprintf(w, "(qtrue C07 %s %s %s)\n", hxs("the result of an earlier Redact/StripMarkers on a byte slice was changed by a later call"), b01(ok), hxs(prevMarkers.input+" then "+s))
			}
			prevMarkers.set, prevMarkers.input = true, s
			prevMarkers.redacted, prevMarkers.redactedCopy = r1, string(r1)
			prevMarkers.stripped, prevMarkers.strippedCopy = s1, string(s1)
		}
	}
	// the conversions return values: later writes to the bytes they were made from do not change them
	if len(s) > 0 {
		b := []byte(s)
		str := redact.RedactableBytes(b).ToString()
		back := redact.RedactableString(s).ToBytes()
		for i := range b {
			b[i] = 'Z'
		}
		ok := string(str) == s && string(back) == s
		for i := range back {
			back[i] = 'Y'
		}
		ok = ok && string(str) == s
		fmt.Fprintf(w, "(qtrue C07 %s %s %s)\n", hxs("ToString/ToBytes results alias the bytes they were converted from"), b01(ok), hxs(s))
	}
}

var prevMarkers struct {
	set                        bool
	input                      string
	redacted, stripped         []byte
	redactedCopy, strippedCopy string
}

func genMarkers(w *bufio.Writer, rng *prng, maxLen, nRandom int) {
	for n := 0; n <= maxLen; n++ {
		enumStrings(alphaMarkers, n, func(s string) { emitMarkers(w, s) })
	}
	for i := 0; i < nRandom; i++ {
		emitMarkers(w, randPayload(rng, 1+rng.intn(14)))
	}
	// many envelopes (adjacent, separated, empty, with line feeds between)
	for _, n := range []int{15, 16, 17, 31, 32, 33, 63, 64, 65, 100, 127, 128, 129, 255, 256, 257, 1000} {
		for _, u := range []string{"a‹b›", "‹b›", "‹›x", "‹é›\n"} {
			emitMarkers(w, strings.Repeat(u, n))
		}
	}
	// long envelopes and long safe stretches (1-, 2- and 3-byte runes; line feeds inside)
	for _, n := range []int{255, 256, 999, 1000, 1001, 1002, 4096, 5000} {
		for _, u := range []string{"s", "é", "日", "s\n"} {
			body := strings.Repeat(u, n)
			emitMarkers(w, "a‹"+body+"›b")
			emitMarkers(w, "‹x›"+body+"‹"+body+"›‹›")
		}
	}
}
