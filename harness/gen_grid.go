package main

// The directive grid: every verb x every subset of the five flags x a fixed zoo of operands (every
// basic kind with boundary values, named / SafeValue / registered types, byte slices and arrays,
// containers, pointers, wrappers, pre-redactables, one value of each scripted user kind by value,
// by pointer and as a nil pointer), in a single-directive Sprintf.  Deterministic: the random
// generators reach a given (verb, flags, kind, value) combination with a probability that falls
// off quickly with its specificity, the grid reaches each of them on every run.  The grid is
// partitioned over the 8 shards by the low bits of the seed; width/precision: one of six
// combinations drawn per point (quick), all six (depth >= 3: thorough).

import (
	"bufio"
	"fmt"
	"math"
	"strings"
	"unicode/utf8"

	"github.com/cockroachdb/redact"
)

func gridZoo() []*Val {
	var zs []*Val
	add := func(v *Val) { zs = append(zs, v) }
	add(&Val{K: "nil"})
	add(&Val{K: "b", GoT: "bool", B: true})
	add(&Val{K: "b", GoT: "MyBool", B: false})
	for _, x := range []int64{0, -1, 10, 65, 0x2039, 0xd800, 0x10ffff, 0x110000, math.MaxInt64, math.MinInt64} {
		add(&Val{K: "i", GoT: "int", I: x})
	}
	add(&Val{K: "i", GoT: "int8", I: -128})
	add(&Val{K: "i", GoT: "int32", I: 0xdfff})
	add(&Val{K: "i", GoT: "int64", I: 1<<32 + 'A'})
	add(&Val{K: "i", GoT: "MyInt", I: 42})
	add(&Val{K: "i", GoT: "SvInt", I: 0x203a})
	add(&Val{K: "i", GoT: "RegInt", I: -7})
	add(&Val{K: "i", GoT: "SafeInt", I: 0xd800})
	for _, x := range []uint64{0, 200, 0xd800, 1 << 63, math.MaxUint64} {
		add(&Val{K: "u", GoT: "uint64", U: x})
	}
	add(&Val{K: "u", GoT: "uint8", U: 0xba})
	add(&Val{K: "u", GoT: "uint16", U: 0xdabc})
	add(&Val{K: "u", GoT: "uintptr", U: 0xdead})
	add(&Val{K: "u", GoT: "MyUint", U: 65})
	add(&Val{K: "u", GoT: "SafeUint", U: 1 << 63})
	for _, x := range []float64{0, math.Copysign(0, -1), 1, -2.25, 1.875, 30, 0.1, 1e21, 1e-7, 123456789, math.Inf(-1), math.NaN()} {
		add(&Val{K: "f", GoT: "float64", F: x})
	}
	add(&Val{K: "f", GoT: "float32", F: 0.9375})
	add(&Val{K: "f", GoT: "MyFloat", F: 7.5})
	add(&Val{K: "f", GoT: "SafeFloat", F: 255})
	for _, s := range []string{"", "a", "a\nb", "‹x›", "nº", "日本", "\xe2\x80", "a\xffb", "q\"`\t"} {
		add(&Val{K: "s", GoT: "string", S: s})
	}
	add(&Val{K: "s", GoT: "MyStr", S: "m›"})
	add(&Val{K: "s", GoT: "SvStr", S: "sv‹\n"})
	add(&Val{K: "s", GoT: "RegStr", S: "rg"})
	add(&Val{K: "s", GoT: "SafeString", S: "ss º"})
	add(&Val{K: "bs", GoT: "[]byte", S: "b‹\n\xba"})
	add(&Val{K: "bs", GoT: "[]byte", Nil: true})
	add(&Val{K: "bs", GoT: "[]byte", S: ""})
	add(&Val{K: "bs", GoT: "MyBytes", S: "xy"})
	add(&Val{K: "bs", GoT: "[4]byte", S: "h\x00\xe2z"})
	add(&Val{K: "rs", S: "a ‹b› c"})
	add(&Val{K: "rs", S: "‹a›\n‹b›"})
	add(&Val{K: "rb", S: "x‹?›"})
	add(&Val{K: "ptr", GoT: "*int", Elems: []*Val{{K: "i", GoT: "int", I: 5}}})
	add(&Val{K: "ptr", GoT: "*int", Nil: true, Elems: []*Val{{K: "i", GoT: "int", I: 5}}})
	leafS := func(s string) *Val { return &Val{K: "s", GoT: "string", S: s} }
	leafI := func(x int64) *Val { return &Val{K: "i", GoT: "int", I: x} }
	add(&Val{K: "sl", GoT: "[]interface{}", Elems: []*Val{leafI(3), leafS("x\ny"), {K: "nil"}, {K: "s", GoT: "SvStr", S: "k"}, {K: "f", GoT: "float64", F: 1.875}}})
	add(&Val{K: "sl", GoT: "[]interface{}", Nil: true})
	add(&Val{K: "sl", GoT: "[]int", Elems: []*Val{leafI(0xd800), leafI(-1)}})
	add(&Val{K: "sl", GoT: "[]string", Elems: []*Val{leafS("‹"), leafS("")}})
	add(&Val{K: "sl", GoT: "[]RedactableString", Elems: []*Val{{K: "rs", S: "‹u›"}, {K: "rs", S: "s"}}})
	add(&Val{K: "ar", GoT: "[2]interface{}", Elems: []*Val{{K: "u", GoT: "uint8", U: 200}, {K: "bs", GoT: "[]byte", S: "ab"}}})
	add(&Val{K: "mp", GoT: "map[string]interface{}", Keys: []*Val{leafS("k›"), leafS("a")}, Elems: []*Val{leafI(1), leafS("v")}})
	add(&Val{K: "mp", GoT: "map[string]interface{}", Nil: true})
	add(&Val{K: "mp", GoT: "map[SvStr]interface{}", Keys: []*Val{{K: "s", GoT: "SvStr", S: "key"}}, Elems: []*Val{leafS("v")}})
	add(&Val{K: "mp", GoT: "map[RegStr]interface{}", Keys: []*Val{{K: "s", GoT: "RegStr", S: "rk"}}, Elems: []*Val{leafI(7)}})
	add(&Val{K: "mp", GoT: "map[int]interface{}", Keys: []*Val{leafI(2), leafI(-1)}, Elems: []*Val{leafS("two"), {K: "nil"}}})
	add(&Val{K: "st", GoT: "St2", Elems: []*Val{leafS("A\n"), leafI(9)}})
	add(&Val{K: "st", GoT: "St3", Elems: []*Val{leafI(1), leafS("y"), {K: "f", GoT: "float64", F: 30}, {K: "nil"}}})
	add(&Val{K: "st", GoT: "RegSt", Elems: []*Val{leafS("n1"), leafI(7)}})
	add(&Val{K: "ptr", GoT: "*RegSt", Elems: []*Val{{K: "st", GoT: "RegSt", Elems: []*Val{leafS("n1"), leafI(7)}}}})
	add(&Val{K: "ptr", GoT: "*St2", Elems: []*Val{{K: "st", GoT: "St2", Elems: []*Val{leafI(0xd800), {K: "nil"}}}}})
	add(&Val{K: "ptr", GoT: "*St2", Nil: true, Elems: []*Val{{K: "st", GoT: "St2", Elems: []*Val{{K: "nil"}, {K: "nil"}}}}})
	add(&Val{K: "safe", Elems: []*Val{leafS("s‹\n")}})
	add(&Val{K: "safe", Elems: []*Val{leafI(0xd800)}})
	add(&Val{K: "safe", Elems: []*Val{{K: "unsafe", Elems: []*Val{leafS("su")}}}})
	add(&Val{K: "safe", Elems: []*Val{{K: "sl", GoT: "[]interface{}", Elems: []*Val{{K: "unsafe", Elems: []*Val{leafS("x")}}, leafI(1)}}}})
	add(&Val{K: "unsafe", Elems: []*Val{{K: "s", GoT: "SafeString", S: "us"}}})
	add(&Val{K: "unsafe", Elems: []*Val{{K: "f", GoT: "float64", F: 1.875}}})
	add(&Val{K: "unsafe", Elems: []*Val{{K: "safe", Elems: []*Val{leafI(3)}}}})
	add(&Val{K: "unsafe", Elems: []*Val{{K: "rs", S: "‹a› b"}}})
	add(&Val{K: "safe", Elems: []*Val{{K: "rs", S: "‹a› b"}}})
	// one value of every scripted user kind: by value, by pointer, nil pointer
	for uk := range userKinds {
		k := userKinds[uk]
		for ptrK := 0; ptrK < 3; ptrK++ {
			v := &Val{K: "usr", UK: uk, ID: newID(), PtrK: ptrK}
			if k.ifaces[0] || k.ifaces[3] {
				v.Script = []*Act{{K: "ss", S: "s="}, {K: "us", S: "u\n"}, {K: "write", S: "w‹"}, {K: "print", Args: []*Val{leafI(0xd800), leafS("p")}},
					{K: "printf", S: "%v|%+v", Args: []*Val{{K: "st", GoT: "St2", Elems: []*Val{leafI(1), leafI(2)}}, {K: "st", GoT: "St2", Elems: []*Val{leafI(1), leafI(2)}}}},
					{K: "dump"}, {K: "ret", S: "r"}}
			} else {
				v.Script = []*Act{{K: "ret", S: "ret‹\n"}}
			}
			add(v)
		}
	}
	add(&Val{K: "usr", UK: 0, ID: newID(), Script: []*Act{{K: "panic", Args: []*Val{leafS("boom‹")}}}})
	add(&Val{K: "usr", UK: 1, ID: newID(), PtrK: 1, Script: []*Act{{K: "panicrt", N: 17}}})
	return zs
}

func genGrid(w *bufio.Writer, rng *prng, seed uint64, depth int) {
	q := &qw{w}
	verbs := []rune(allVerbs + "O")
	nz := len(gridZoo())
	shard := int(seed % 8)
	widprec := []string{"", "6", ".3", "9.0", "4", ".0"}
	idx := 0
	for vi := 0; vi < nz; vi++ {
		for _, verb := range verbs {
			for fl := 0; fl < 32; fl++ {
				idx++
				if idx%8 != shard {
					continue
				}
				var flags strings.Builder
				for b, ch := range "+-# 0" {
					if fl&(1<<uint(b)) != 0 {
						flags.WriteRune(ch)
					}
				}
				wps := []string{widprec[rng.intn(len(widprec))]}
				if depth >= 3 {
					wps = widprec
				}
				for _, wp := range wps {
					v := gridZoo()[vi]
					f := rng.pick([]string{"", "[", "nº"}) + "%" + flags.String() + wp + string(verb) + "]"
					c := &pcase{entry: "sprintf", format: f, args: []*Val{v}, reg: v.GoT != "RegStr" || fl&1 == 0}
					if v.K == "usr" && rng.coin(1, 6) {
						c.useHook, c.hook = true, []*Act{{K: "ss", S: "H:"}, {K: "us", S: "h"}}
					}
					args := prepCase(c)
					var out, fout string
					p, pv := try(func() { out = string(redact.Sprintf(f, args...)) })
					info := caseInfo(c)
					q.truth("C11", "a single-directive Sprintf panicked", !p, info+fmt.Sprintf(" panic value %v", pv))
					if !p && !c.useHook && verb != 'w' && fmtCompatVal(v) && fmtCompatFormat(f) && utf8.ValidString(f) {
						fp, _ := try(func() { fout = fmt.Sprintf(f, args...) })
						q.truth("C04", "a print call panics exactly when fmt does", !fp, info)
						if !fp {
							q.eq("C04", "StripMarkers(redact output) = fmt output with markers replaced", fn("strip", lit(out)), fn("escm", lit(fout)), info)
						}
					}
					fmt.Fprintln(w, runPCase(c))
				}
			}
		}
	}
	// Sprint of every ordered pair of leaves: the operand-spacing rule looks at both neighbours
	zs := gridZoo()
	for a := 0; a < len(zs); a++ {
		for b := 0; b < len(zs); b++ {
			idx++
			if idx%8 != shard || (depth < 3 && !rng.coin(1, 4)) {
				continue
			}
			z := gridZoo()
			c := &pcase{entry: "sprint", args: []*Val{z[a], z[b]}, reg: true}
			args := prepCase(c)
			var out, fout string
			p, pv := try(func() { out = string(redact.Sprint(args...)) })
			info := caseInfo(c)
			q.truth("C11", "a two-operand Sprint panicked", !p, info+fmt.Sprintf(" panic value %v", pv))
			if !p && fmtCompatVal(z[a]) && fmtCompatVal(z[b]) {
				fp, _ := try(func() { fout = fmt.Sprint(args...) })
				if !fp {
					q.eq("C04", "StripMarkers(redact.Sprint) = fmt.Sprint with markers replaced", fn("strip", lit(out)), fn("escm", lit(fout)), info)
				}
			}
			fmt.Fprintln(w, runPCase(c))
		}
	}
}
