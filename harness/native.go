package main

// Values that exist only on the Go side (no counterpart in the Coq value universe): they are
// printed with redact and with the standard fmt and the two texts compared (Q only, no K).
// This widens C04 to the branches of printValue the model does not have: byte arrays (addressable
// or not, named element types, unexported fields), complex numbers, channels, functions,
// unsafe pointers, reflect.Value operands, maps with composite keys, pointer chains.

import (
	"bufio"
	"errors"
	"fmt"
	"reflect"
	"strings"
	"time"
	"unsafe"

	"github.com/cockroachdb/redact"
)

type myByte byte
type myCplx complex128
type nvInner struct {
	sum  [4]byte
	Name string
}
type nvOuter struct {
	nvInner
	P   *nvInner
	arr [2]myByte
	M   map[string][]int
	f   func()
	c   chan int
}
type nvKey struct {
	A int
	B string
}
type nvStr struct{ s string }

func (n nvStr) String() string { return "S(" + n.s + ")" }

type nvErr struct{ s string }

func (n *nvErr) Error() string { return "E(" + n.s + ")" }

type nvGo struct{ x int }

func (n nvGo) GoString() string { return fmt.Sprintf("nvGo<%d>", n.x) }

// formatting methods declared on nil-able non-pointer kinds, panicking on the nil value
type nilSliceS []int

func (s nilSliceS) String() string { return fmt.Sprint(s[0]) }

type nilMapE map[string]int

func (m nilMapE) Error() string { m["x"] = 1; return "set" }

type nilFuncS func() string

func (f nilFuncS) String() string { return f() }

func nativeZoo() []interface{} {
	arr := [3]byte{1, 2, 0x6b}
	in := nvInner{sum: [4]byte{0x64, 0x61, 0x62, 0x65}, Name: "n‹m›\n"}
	i7 := 7
	pi := &i7
	ppi := &pi
	ch := make(chan int)
	fn := func() {}
	var nilch chan int
	var nilfn func()
	var nilmap map[string]int
	var nilerr error
	var nilptr *nvInner
	var iface interface{} = "in‹face"
	return []interface{}{
		arr, &arr, [3]myByte{1, 2, 0x6b}, []myByte{0xe2, 0x80, 0xb9}, [0]byte{}, [2][2]byte{{1, 2}, {3, 4}},
		struct{ sum [4]byte }{[4]byte{1, 2, 3, 4}}, struct {
			a []byte
			B [2]byte
		}{[]byte("x‹"), [2]byte{'h', 'i'}},
		in, &in, nvOuter{nvInner: in, P: &in, arr: [2]myByte{9, 10}, M: map[string][]int{"k›": {1, 2}, "a": nil}, f: fn, c: ch},
		complex(1.5, -2), complex64(complex(0, 1)), myCplx(complex(3, 4)), complex(1e100, 1e-100),
		ch, nilch, fn, nilfn, unsafe.Pointer(pi), unsafe.Pointer(nil), uintptr(0xdead), pi, ppi,
		nilmap, nilerr, nilptr, &iface, (*interface{})(nil),
		map[nvKey]string{{1, "b"}: "x", {1, "a"}: "y‹", {0, "z"}: "z"}, map[int]string{3: "c", 1: "a\n", 2: "›"},
		map[bool][]string{true: {"t"}, false: nil}, map[float64]int{2.5: 1, -1: 2}, map[[2]int]bool{{1, 2}: true, {0, 9}: false},
		map[interface{}]interface{}{"s": 1, 2: "two", 1.5: nil, true: []int{1}},
		reflect.ValueOf(3), reflect.ValueOf("s‹t›"), reflect.ValueOf(in), reflect.ValueOf(&in), reflect.Value{}, reflect.ValueOf(arr),
		reflect.ValueOf([]interface{}{1, "a"}), reflect.ValueOf(nvStr{"q"}), reflect.ValueOf(&iface).Elem(), reflect.ValueOf(map[string]int{"a": 1}),
		[]error{errors.New("e1‹"), nil, &nvErr{"two"}}, []fmt.Stringer{nvStr{"a"}, nil, time.Duration(1500) * time.Millisecond},
		struct {
			s nvStr
			E error
			g nvGo
		}{nvStr{"hid"}, &nvErr{"exp"}, nvGo{3}}, nvGo{5}, &nvGo{6}, []nvGo{{1}, {2}},
		[2]string{"‹a›", "b\nc"}, [3]bool{true, false, true}, []interface{}(nil), []float32{1.5, -0}, []complex128{1i},
		[]*int{pi, nil}, [][]byte{[]byte("ab"), nil, {0x7f}}, []MyBytes{MyBytes("xy")}, struct{}{}, &struct{}{}, [0]int{},
		int64(1)<<32 + 'A', uint64(1) << 63, int64(-1) << 40, int8(-128), uint8(200), 'x', rune(0x2039), rune(-5), uint32(0x10ffff + 1),
		nilSliceS(nil), nilMapE(nil), nilFuncS(nil), nilSliceS{4}, []fmt.Stringer{nilSliceS(nil), nilFuncS(nil)},
		map[int64]string{-1 << 63: "lo", 1: "hi", 1<<63 - 1: "max", -2: "m2"}, map[int]int{-1 << 63: 0, 1<<63 - 1: 1, 0: 2},
		time.Duration(0), time.Unix(0, 0).UTC(), errors.New("plain‹"), fmt.Errorf("wrapped: %w", errors.New("in›ner")),
	}
}

func genNativeQ04(q *qw, w *bufio.Writer, rng *prng, n int) {
	zoo := nativeZoo()
	verbs := []rune("vvvdsxXqtbocUeEfFgGpT")
	for i := 0; i < n; i++ {
		k := 1 + rng.intn(2)
		var args []interface{}
		var sb strings.Builder
		for j := 0; j < k; j++ {
			sb.WriteString(rng.pick([]string{"", "a=", " ", "‹", "\n", "%%"}))
			sb.WriteByte('%')
			if rng.coin(1, 3) {
				for _, ch := range "+# 0" {
					if rng.coin(1, 4) {
						sb.WriteRune(ch)
					}
				}
			} else if rng.coin(1, 6) {
				sb.WriteString("-")
			}
			if rng.coin(1, 4) {
				fmt.Fprintf(&sb, "%d", rng.intn(14))
			}
			if rng.coin(1, 5) {
				fmt.Fprintf(&sb, ".%d", rng.intn(6))
			}
			sb.WriteRune(verbs[rng.intn(len(verbs))])
			args = append(args, zoo[rng.intn(len(zoo))])
		}
		f := sb.String()
		isPrint := rng.coin(1, 6)
		var rout, fout string
		var rp, fp bool
		var rpv, fpv interface{}
		if isPrint {
			rp, rpv = try(func() { rout = string(redact.Sprint(args...)) })
			fp, fpv = try(func() { fout = fmt.Sprint(args...) })
			f = "<Sprint>"
		} else {
			rp, rpv = try(func() { rout = string(redact.Sprintf(f, args...)) })
			fp, fpv = try(func() { fout = fmt.Sprintf(f, args...) })
		}
		info := fmt.Sprintf("native zoo: format %q operands %T", f, args)
		for _, a := range args {
			info += fmt.Sprintf(" %#v", a)
		}
		if rp != fp {
			info += fmt.Sprintf(" redact panic=%v fmt panic=%v", rpv, fpv)
		}
		q.truth("C04", "a print call panics exactly when fmt does", rp == fp, info)
		q.truth("C11", "a printing call panicked on an operand fmt prints", !rp || fp, info)
		if !rp && !fp {
			q.eq("C04", "StripMarkers(redact output) = fmt output with markers replaced", fn("strip", lit(rout)), fn("escm", lit(fout)), info)
			q.pred("C01", "well-formed", "redactable", lit(rout), info)
		}
	}
}
