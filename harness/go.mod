module verifharness

go 1.14

require github.com/cockroachdb/redact v0.0.0

replace github.com/cockroachdb/redact => /repo
