package main

import (
	"fmt"

	"github.com/cockroachdb/redact"
)

// ---------- named basic types ----------
type MyInt int
type MyUint uint16
type MyStr string
type MyBool bool
type MyBytes []byte
type MyFloat float64

// SafeValue-marked types
type SvInt int

func (SvInt) SafeValue() {}

type SvStr string

func (SvStr) SafeValue() {}

// types registered with RegisterSafeType in configurations that ask for it
type RegInt int
type RegStr string

// a composite type registered as a whole (its element type, not *RegSt)
type RegSt struct {
	N string
	V int
}

// ---------- containers ----------
type St2 struct {
	A interface{}
	b interface{}
}
type St3 struct {
	X int
	Y string
	z interface{}
	E error
}

// exported SafeValue fields rendered by a method, unexported (not interfaceable) strings
type St4 struct {
	L      UStrSafeValue
	secret string
}
type St5 struct {
	first string
	L     UStrSafeValue
	S     SvStr
	tail  string
}

// ---------- scripted user types ----------
// A script is looked up by ID; see script.go.

type UStringer struct{ ID int }

func (u UStringer) String() string { return runStringMethod(u.ID) }

type UError struct{ ID int }

func (u UError) Error() string { return runStringMethod(u.ID) }

type UFormatter struct{ ID int }

func (u UFormatter) Format(s fmt.State, verb rune) { runFormatMethod(u.ID, s, verb) }

type UGoStringer struct{ ID int }

func (u UGoStringer) GoString() string { return runStringMethod(u.ID) }

type USafeFormatter struct{ ID int }

func (u USafeFormatter) SafeFormat(p redact.SafePrinter, verb rune) {
	runSafeFormatMethod(u.ID, p, verb)
}

type USafeMessager struct{ ID int }

func (u USafeMessager) SafeMessage() string { return runStringMethod(u.ID) }

// error + Formatter
type UErrFormatter struct{ ID int }

func (u UErrFormatter) Error() string                 { return runStringMethod(u.ID) }
func (u UErrFormatter) Format(s fmt.State, verb rune) { runFormatMethod(u.ID, s, verb) }

// error + SafeFormatter
type UErrSafeFormatter struct{ ID int }

func (u UErrSafeFormatter) Error() string { return runStringMethod(u.ID) }
func (u UErrSafeFormatter) SafeFormat(p redact.SafePrinter, verb rune) {
	runSafeFormatMethod(u.ID, p, verb)
}

// error + Stringer
type UErrStringer struct{ ID int }

func (u UErrStringer) Error() string  { return runStringMethod(u.ID) }
func (u UErrStringer) String() string { return "STRINGER-NOT-USED" }

// Stringer + SafeValue
type UStrSafeValue struct{ ID int }

func (u UStrSafeValue) String() string { return runStringMethod(u.ID) }
func (UStrSafeValue) SafeValue()       {}

// Stringer + GoStringer
type UStrGoStr struct{ ID int }

func (u UStrGoStr) String() string   { return runStringMethod(u.ID) }
func (u UStrGoStr) GoString() string { return runStringMethod(u.ID) }

// Formatter + SafeValue
type UFmtSafeValue struct{ ID int }

func (u UFmtSafeValue) Format(s fmt.State, verb rune) { runFormatMethod(u.ID, s, verb) }
func (UFmtSafeValue) SafeValue()                      {}

// Stringer of a type registered with RegisterSafeType (in the configurations that register)
type URegStringer struct{ ID int }

func (u URegStringer) String() string { return runStringMethod(u.ID) }

// ifaces flags in the order of the model: SafeFormatter, SafeMessager, error, Formatter, GoStringer, Stringer
type userKind struct {
	name   string
	ifaces [6]bool
	mk     func(id int) interface{} // value
	mkPtr  func(id int) interface{} // non-nil pointer
	mkNil  func() interface{}       // nil pointer
}

var userKinds = []userKind{
	{"UStringer", [6]bool{false, false, false, false, false, true},
		func(id int) interface{} { return UStringer{id} }, func(id int) interface{} { return &UStringer{id} }, func() interface{} { return (*UStringer)(nil) }},
	{"UError", [6]bool{false, false, true, false, false, false},
		func(id int) interface{} { return UError{id} }, func(id int) interface{} { return &UError{id} }, func() interface{} { return (*UError)(nil) }},
	{"UFormatter", [6]bool{false, false, false, true, false, false},
		func(id int) interface{} { return UFormatter{id} }, func(id int) interface{} { return &UFormatter{id} }, func() interface{} { return (*UFormatter)(nil) }},
	{"UGoStringer", [6]bool{false, false, false, false, true, false},
		func(id int) interface{} { return UGoStringer{id} }, func(id int) interface{} { return &UGoStringer{id} }, func() interface{} { return (*UGoStringer)(nil) }},
	{"USafeFormatter", [6]bool{true, false, false, false, false, false},
		func(id int) interface{} { return USafeFormatter{id} }, func(id int) interface{} { return &USafeFormatter{id} }, func() interface{} { return (*USafeFormatter)(nil) }},
	{"USafeMessager", [6]bool{false, true, false, false, false, false},
		func(id int) interface{} { return USafeMessager{id} }, func(id int) interface{} { return &USafeMessager{id} }, func() interface{} { return (*USafeMessager)(nil) }},
	{"UErrFormatter", [6]bool{false, false, true, true, false, false},
		func(id int) interface{} { return UErrFormatter{id} }, func(id int) interface{} { return &UErrFormatter{id} }, func() interface{} { return (*UErrFormatter)(nil) }},
	{"UErrSafeFormatter", [6]bool{true, false, true, false, false, false},
		func(id int) interface{} { return UErrSafeFormatter{id} }, func(id int) interface{} { return &UErrSafeFormatter{id} }, func() interface{} { return (*UErrSafeFormatter)(nil) }},
	{"UErrStringer", [6]bool{false, false, true, false, false, true},
		func(id int) interface{} { return UErrStringer{id} }, func(id int) interface{} { return &UErrStringer{id} }, func() interface{} { return (*UErrStringer)(nil) }},
	{"UStrSafeValue", [6]bool{false, false, false, false, false, true},
		func(id int) interface{} { return UStrSafeValue{id} }, func(id int) interface{} { return &UStrSafeValue{id} }, func() interface{} { return (*UStrSafeValue)(nil) }},
	{"UStrGoStr", [6]bool{false, false, false, false, true, true},
		func(id int) interface{} { return UStrGoStr{id} }, func(id int) interface{} { return &UStrGoStr{id} }, func() interface{} { return (*UStrGoStr)(nil) }},
	{"UFmtSafeValue", [6]bool{false, false, false, true, false, false},
		func(id int) interface{} { return UFmtSafeValue{id} }, func(id int) interface{} { return &UFmtSafeValue{id} }, func() interface{} { return (*UFmtSafeValue)(nil) }},
	{"URegStringer", [6]bool{false, false, false, false, false, true},
		func(id int) interface{} { return URegStringer{id} }, func(id int) interface{} { return &URegStringer{id} }, func() interface{} { return (*URegStringer)(nil) }},
}
